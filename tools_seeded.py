#!/usr/bin/env python3
"""Validate a seeded defect and run checks against it.

  tools_seeded.py add NAME SRC_DIR PROP [CHECKS...]   # SRC_DIR holds patch.diff + demo.py
  tools_seeded.py run NAME [CHECKS...]                # re-run checks against seeded/NAME
  tools_seeded.py runall [TIER]

The patch is applied to a scratch worktree of /repo (never to /repo itself) and
the checks are pointed at it with XV_REPO; outputs go to a scratch XV_OUT.
"""
import json
import os
import re
import shutil
import subprocess
import sys
import tempfile
import time

HERE = os.path.dirname(os.path.abspath(__file__))
SEEDED = os.path.join(HERE, "seeded")


def sh(cmd, cwd=None, env=None, timeout=3600):
    p = subprocess.run(cmd, shell=True, cwd=cwd, env=env, stdout=subprocess.PIPE, stderr=subprocess.STDOUT, timeout=timeout)
    return p.returncode, p.stdout.decode("utf-8", "replace")


def make_wt(name):
    wt = f"/tmp/sv-{name}"
    sh(f"git -C /repo worktree remove --force {wt}")
    shutil.rmtree(wt, ignore_errors=True)
    rc, out = sh(f"git -C /repo worktree add -q --detach {wt} HEAD")
    assert rc == 0, out
    return wt


def drop_wt(wt):
    sh(f"git -C /repo worktree remove --force {wt}")
    shutil.rmtree(wt, ignore_errors=True)


def pytest_summary(wt):
    rc, out = sh("/venv/bin/python -m pytest -q -p no:cacheprovider xandikos 2>&1 | tail -1", cwd=wt)
    return out.strip()


def run_checks(wt, checks, tier="quick", seed="1"):
    results = {}
    for c in checks:
        outdir = tempfile.mkdtemp(prefix="xvout-")
        env = dict(os.environ, XV_REPO=wt, XV_OUT=outdir, VERIF_SEED=seed)
        t = time.time()
        rc, out = sh(f"./check {c} --tier {tier}", cwd=HERE, env=env)
        viol = [ln for ln in out.splitlines() if ln.startswith("VIOLATION") or ln.startswith("  [")]
        results[c] = {"exit": rc, "wall_s": round(time.time() - t, 1), "lines": viol[:6], "tier": tier, "seed": int(seed)}
        shutil.rmtree(outdir, ignore_errors=True)
        print(f"   check {c} tier={tier}: exit {rc} ({results[c]['wall_s']}s) {viol[1][:200] if len(viol) > 1 else ''}")
    return results


def add(name, src, prop, checks):
    d = os.path.join(SEEDED, name)
    os.makedirs(d, exist_ok=True)
    if os.path.abspath(src) != os.path.abspath(d):
        shutil.copy(os.path.join(src, "patch.diff"), os.path.join(d, "patch.diff"))
        shutil.copy(os.path.join(src, "demo.py"), os.path.join(d, "demo.py"))
    validate_and_run(name, prop, checks or [prop])


def validate_and_run(name, prop, checks, tier="quick", needs=None, what=None):
    d = os.path.join(SEEDED, name)
    meta_p = os.path.join(d, "meta.json")
    meta = json.load(open(meta_p)) if os.path.exists(meta_p) else {}
    wt = make_wt(name)
    try:
        env = dict(os.environ, PYTHONPATH=wt)
        demo = open(os.path.join(d, "demo.py")).read()
        demo = re.sub(r"/tmp/wt\d*-C\d+[a-z]?", wt, demo)
        open(os.path.join(wt, "demo.py"), "w").write(demo)
        rc0, out0 = sh("/venv/bin/python demo.py", cwd=wt, env=env)
        base = pytest_summary(wt)
        rc, out = sh(f"git apply {os.path.join(d, 'patch.diff')}", cwd=wt)
        assert rc == 0, "patch does not apply: " + out
        mut = pytest_summary(wt)
        rc1, out1 = sh("/venv/bin/python demo.py", cwd=wt, env=env)
        print(f"{name}: demo unpatched exit {rc0}, patched exit {rc1}; pytest base [{base}] patched [{mut}]")
        ok = rc0 == 0 and rc1 != 0 and re.sub(r" in [\d.]+s", "", base) == re.sub(r" in [\d.]+s", "", mut)
        meta.update({"property": prop, "confirmed": ok, "demo_exit_unpatched": rc0, "demo_exit_patched": rc1, "pytest_unpatched": base, "pytest_patched": mut, "repo_head": sh("git -C /repo log --format=%h -1")[1].strip()})
        if needs:
            meta["needs"] = needs
        if what:
            meta["what"] = what
        if ok:
            meta.setdefault("checks", {}).update(run_checks(wt, checks, tier))
            meta["ran"] = f"patch applied to a scratch worktree of /repo ({wt}); pytest; demo.py with and without the patch; XV_REPO={wt} ./check <ID> --tier {tier}"
        json.dump(meta, open(meta_p, "w"), indent=1, sort_keys=True)
    finally:
        drop_wt(wt)
    return meta


if __name__ == "__main__":
    cmd = sys.argv[1]
    if cmd == "add":
        add(sys.argv[2], sys.argv[3], sys.argv[4], sys.argv[5:])
    elif cmd == "run":
        name = sys.argv[2]
        meta = json.load(open(os.path.join(SEEDED, name, "meta.json")))
        validate_and_run(name, meta["property"], sys.argv[3:] or [meta["property"]])
    elif cmd == "runall":
        tier = sys.argv[2] if len(sys.argv) > 2 else "quick"
        for name in sorted(os.listdir(SEEDED)):
            mp = os.path.join(SEEDED, name, "meta.json")
            if os.path.exists(mp):
                meta = json.load(open(mp))
                validate_and_run(name, meta["property"], [meta["property"]], tier)
