#!/usr/bin/env python3
"""Regenerates MANIFEST.json from the table below (kept in one place so that
it stays valid).  Usage: python3 tools_manifest.py"""
import json
import os

HERE = os.path.dirname(os.path.abspath(__file__))

CHECKS = {}


def check(pid, category, text, note, technique, design_ref, thorough=True):
    CHECKS[pid] = {
        "property_id": pid,
        "quick_cmd": f"./check {pid} --tier quick",
        **({"thorough_cmd": f"./check {pid} --tier thorough"} if thorough else {}),
        "evidence_file": f"evidence/{pid}.json",
        "replay_cmd_template": f"./check {pid} --replay {{path}}",
        "engine": "xv",
        "level_claimed": {"category": category, "text": text, "design_ref": design_ref},
        "level_note": note,
        "technique": technique,
    }


exec(open(os.path.join(HERE, "manifest_table.py")).read())

ALL = [f"C{i:02d}" for i in range(1, 19)]
manifest = {
    "version": 1,
    "setup_cmd": "./setup.sh",
    "hooks": {
        "guard": "XANDIKOS_VERIF",
        "enable": "no source hooks: fault injection, scheduling and file-system auditing are done from the harness processes (sys.addaudithook / sys.settrace / monkey-patching); /repo carries only 'fix:' commits",
        "baseline_off_cmd": "cd /repo && /venv/bin/python -m pytest -ra -q -p no:cacheprovider --timeout=900 --continue-on-collection-errors",
        "source_commits": [],
        "add_only": True,
    },
    "engines": [
        {"name": "xv", "path": "xv/", "serves_properties": sorted(CHECKS), "kind_free_text": "Hypothesis-driven generators + plain interpreters with reference models (request-history machine, store-API machine, grids, crash injector, cooperative scheduler); ./check is the single entry point"}
    ],
    "checks": [CHECKS[k] for k in sorted(CHECKS)],
    "notes": "All checks: exit 0 held / exit 1 + VIOLATION line / exit 2 harness error or vacuous run. VERIF_SEED selects the Hypothesis seed (seed*1000+shard). XV_REPO selects the tree (default /repo).",
    "not_applicable": [{"property_id": p, "reason": NOT_YET.get(p, "check not built yet")} for p in ALL if p not in CHECKS],
}
with open(os.path.join(HERE, "MANIFEST.json"), "w") as f:
    json.dump(manifest, f, indent=1)
print("checks:", sorted(CHECKS), "not_applicable:", [x["property_id"] for x in manifest["not_applicable"]])
