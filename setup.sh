#!/bin/sh
# Offline setup: everything needed is already in /venv (hypothesis 6.168 incl.);
# install hypothesis from the wheelhouse only if it is missing.
set -e
cd "$(dirname "$0")"
/venv/bin/python -c "import hypothesis" 2>/dev/null || /venv/bin/pip install --no-index --find-links /opt/veriftools/wheels hypothesis
/venv/bin/python -c "import hypothesis, xv.env; print('hypothesis', hypothesis.__version__)"
mkdir -p evidence replays
