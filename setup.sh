#!/bin/sh
# Offline setup: hypothesis is normally already in /venv; atheris (cp312 wheel) goes to .deps.
set -e
cd "$(dirname "$0")"
/venv/bin/python -c "import hypothesis" 2>/dev/null || /venv/bin/pip install -q --no-index --find-links /opt/veriftools/wheels hypothesis
if ! PYTHONPATH=.deps /venv/bin/python -c "import atheris" 2>/dev/null; then
  /venv/bin/pip install -q --no-index --find-links /opt/veriftools/wheels --target .deps atheris || echo "atheris unavailable: the C14 fuzz campaign (thorough tier) will be skipped"
fi
/venv/bin/python -c "import hypothesis, xv.env; print('hypothesis', hypothesis.__version__)"
mkdir -p evidence replays
