"""Cooperative scheduler for C05: the harness owns the interleaving of store operations.

Each operation runs in its own thread but only while it holds the baton.  The baton is offered
back at every *schedule point*: every `line` trace event in a frame of xandikos/store/*.py (fine
mode) and every audited file-system event (open, rename/replace, remove, mkdir, listdir, scandir,
stat-free) on a path inside the store directory - which exposes interleavings inside dulwich calls.
A policy decides at each point who runs next; a schedule is therefore a pure function of the policy.
"""
from . import env  # noqa: F401

import collections
import os
import sys
import threading

FS_EVENTS = {"open", "os.rename", "os.remove", "os.mkdir", "os.rmdir", "os.listdir", "os.scandir", "os.truncate", "os.link", "os.unlink"}

_ACTIVE = [None]
_HOOKED = [False]
_TLS = threading.local()


def _audit(event, args):
    s = _ACTIVE[0]
    if s is None or event not in FS_EVENTS:
        return
    idx = getattr(_TLS, "idx", None)
    if idx is None:
        return
    for a in args[:2]:
        if isinstance(a, (str, bytes)):
            p = os.path.abspath(os.fsdecode(a))
            if p == s.root or p.startswith(s.root + os.sep):
                s.point(idx, "fs", (event, os.path.relpath(p, s.root)))
                return


def install_hook():
    if not _HOOKED[0]:
        sys.addaudithook(_audit)  # audit hooks cannot be removed: one per process
        _HOOKED[0] = True


class Deadlock(Exception):
    pass


class SegmentPolicy:
    """segments: [(thread, n points)], then everything runs to completion in thread order."""

    def __init__(self, segments):
        self.segments = list(segments)
        self.pos = 0
        self.used = 0

    def first(self, sched):
        while self.pos < len(self.segments) and (self.segments[self.pos][1] <= 0 or sched.finished[self.segments[self.pos][0]]):
            self.pos += 1
        if self.pos < len(self.segments):
            return self.segments[self.pos][0]
        return sched.any_unfinished()

    def next(self, sched, t, kind, where):
        if self.pos < len(self.segments) and self.segments[self.pos][0] == t:
            self.used += 1
            if self.used >= self.segments[self.pos][1]:
                self.pos += 1
                self.used = 0
                return self.first(sched) if self.first(sched) is not None else t
        return t

    def on_finish(self, sched, t):
        if self.pos < len(self.segments) and self.segments[self.pos][0] == t:
            self.pos += 1
            self.used = 0
        return self.first(sched)


class ListPolicy:
    """Random schedules: a list of small ints consumed at schedule points; 0 = switch."""

    def __init__(self, choices, nthreads, start=0):
        self.choices = list(choices)
        self.i = 0
        self.n = nthreads
        self.start = start

    def first(self, sched):
        return self.start % self.n if not sched.finished[self.start % self.n] else sched.any_unfinished()

    def next(self, sched, t, kind, where):
        if self.i >= len(self.choices):
            return t
        c = self.choices[self.i]
        self.i += 1
        if c == 0:
            others = [k for k in range(self.n) if k != t and not sched.finished[k]]
            if others:
                return others[(self.i) % len(others)]
        return t

    def on_finish(self, sched, t):
        return sched.any_unfinished()


class Scheduler:
    def __init__(self, root, policy, fine=True, timeout=20.0):
        self.root = os.path.abspath(root)
        self.policy = policy
        self.fine = fine
        self.timeout = timeout
        self.points = []
        self.finished = []
        self.events = []
        self.results = []
        self.switches = 0
        self.log = []  # (thread, kind, where) at each switch
        self.lock = threading.Lock()
        self.failed = None
        self.order = []  # ("start" | "finish", thread) in the order in which it happened
        self.marks = collections.defaultdict(dict)  # thread -> progress markers (see point())
        self.switch_marks = []  # (thread, markers at the moment it was pre-empted)

    def finished_before_start(self):
        """{k: set of threads that had finished before thread k started}"""
        out = {}
        done = set()
        for what, i in self.order:
            if what == "finish":
                done.add(i)
            else:
                out[i] = set(done)
        return out

    def any_unfinished(self):
        for i, f in enumerate(self.finished):
            if not f:
                return i
        return None

    def _tracer(self, frame, event, arg):
        if event == "call" and "/xandikos/store/" in frame.f_code.co_filename:
            return self._local
        return None

    def _local(self, frame, event, arg):
        if event == "line":
            idx = getattr(_TLS, "idx", None)
            if idx is not None:
                self.point(idx, "line", (os.path.basename(frame.f_code.co_filename), frame.f_lineno))
        return self._local

    def point(self, idx, kind, where):
        if getattr(_TLS, "busy", False):
            return
        _TLS.busy = True
        try:
            self.points[idx] += 1
            if kind == "fs":
                self.fs_points[idx] += 1
                # progress markers of a bare-store commit: dulwich opens MERGE_HEAD, reads the branch ref (the
                # parent), then writes the commit object; from that write on the parent has been read
                ev, rel = where
                if rel.endswith("MERGE_HEAD") and ev == "open":
                    self.marks[idx]["merge_head"] = True
                elif self.marks[idx].get("merge_head") and rel.startswith("objects/") and not self.marks[idx].get("refs_done"):
                    self.marks[idx]["parent_read"] = True
                if ev in ("os.rename", "os.replace") and "refs/" in rel:
                    self.marks[idx]["refs_done"] = True
            nxt = self.policy.next(self, idx, kind, where)
            if nxt is not None and nxt != idx and not self.finished[nxt]:
                self.switches += 1
                self.log.append((idx, self.points[idx], kind, where))
                self.switch_marks.append((idx, dict(self.marks[idx])))
                self.events[idx].clear()
                self.events[nxt].set()
                if not self.events[idx].wait(self.timeout):
                    self.failed = f"thread {idx} was never resumed after a switch at {kind} {where}"
                    raise Deadlock(self.failed)
        finally:
            _TLS.busy = False

    def _body(self, i, fn):
        self.events[i].wait()
        self.order.append(("start", i))
        _TLS.idx = i
        _TLS.busy = False
        if self.fine:
            sys.settrace(self._tracer)
        try:
            self.results[i] = ("ok", fn())
        except Deadlock:
            self.results[i] = ("deadlock", None)
        except BaseException as e:  # classified by the caller
            self.results[i] = ("exc", e)
        finally:
            sys.settrace(None)
            _TLS.idx = None
            self.order.append(("finish", i))
            self.finished[i] = True
            nxt = self.policy.on_finish(self, i)
            if nxt is not None:
                self.events[nxt].set()

    def run(self, fns):
        n = len(fns)
        self.points = [0] * n
        self.fs_points = [0] * n
        self.finished = [False] * n
        self.events = [threading.Event() for _ in range(n)]
        self.results = [None] * n
        install_hook()
        threads = [threading.Thread(target=self._body, args=(i, fn), daemon=True) for i, fn in enumerate(fns)]
        _ACTIVE[0] = self
        try:
            for t in threads:
                t.start()
            first = self.policy.first(self)
            self.events[first if first is not None else 0].set()
            for t in threads:
                t.join(self.timeout + 5)
                if t.is_alive():
                    self.failed = self.failed or "a thread did not finish (deadlock in the schedule)"
                    # release everything so that daemon threads can end
                    for e in self.events:
                        e.set()
                    break
        finally:
            _ACTIVE[0] = None
        return self.results
