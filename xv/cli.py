"""./check <ID> [--tier quick|thorough] [--replay FILE]"""
from . import env

import argparse
import importlib
import json
import sys
import traceback


def main(argv):
    ap = argparse.ArgumentParser()
    ap.add_argument("id")
    ap.add_argument("--tier", default=None)
    ap.add_argument("--replay", default=None)
    a = ap.parse_args(argv)
    tier = a.tier or env.tier()
    mod = importlib.import_module(f"xv.checks.{a.id.lower()}")
    if a.replay:
        with open(a.replay) as f:
            data = json.load(f)
        ok, detail = mod.replay(data["replay"])
        if ok:
            print(f"replay of {a.replay}: property held")
            return 0
        print(f"VIOLATION property={a.id} replay={a.replay}")
        print("  " + str(detail)[:2000])
        return 1
    from . import runner

    try:
        res = mod.main(tier, env.seed())
    except Exception:
        print(f"HARNESS-ERROR property={a.id} " + traceback.format_exc())
        return 2
    return runner.finish(res)


if __name__ == "__main__":
    sys.exit(main(sys.argv[1:]))
