"""Crash injector for C04: runs one store operation in a forked child whose audit hook kills the
process on entry to the k-th file-system mutation under the store directory (or, for direct file
writes, after the file was created/truncated, or after half of the bytes were written)."""
from . import env  # noqa: F401

import builtins
import os
import shutil
import sys

MUTATING = {"os.rename", "os.remove", "os.mkdir", "os.rmdir", "os.truncate", "os.chmod", "os.utime", "os.link", "os.symlink", "shutil.rmtree", "os.chown", "shutil.move", "shutil.copyfile", "os.unlink"}
WRITE_FLAGS = os.O_WRONLY | os.O_RDWR | os.O_CREAT | os.O_TRUNC | os.O_APPEND
KNOWN_NONMUTATING = {"open", "os.listdir", "os.scandir", "os.walk", "os.stat", "glob.glob", "os.chdir", "os.getcwd", "os.fspath", "os.readlink", "os.access"}


def _is_mutation(event, args, root):
    if event == "open":
        path, mode, flags = (list(args) + [None, None, None])[:3]
        if not isinstance(path, (str, bytes)):
            return None
        if isinstance(flags, int) and flags & WRITE_FLAGS or isinstance(mode, str) and any(c in mode for c in "wax+"):
            p = os.fsdecode(path)
            return p if _under(p, root) else None
        return None
    if event in MUTATING:
        for a in args[:2]:
            if isinstance(a, (str, bytes)):
                p = os.fsdecode(a)
                if _under(p, root):
                    return p
        return None
    return None


def _under(p, root):
    ap = os.path.abspath(p)
    return ap == root or ap.startswith(root + os.sep)


class _HalfWriter:
    """File proxy: the first write writes half of the data, flushes, and the process dies."""

    def __init__(self, f):
        self._f = f

    def _die(self, data):
        half = data[: max(0, len(data) // 2)]
        self._f.write(half)
        self._f.flush()
        os._exit(97)

    def write(self, data):
        self._die(data)

    def writelines(self, lines):
        lines = list(lines)
        if not lines:
            return
        joiner = b"" if isinstance(lines[0], bytes) else ""
        self._die(joiner.join(lines))

    def __enter__(self):
        return self

    def __exit__(self, *a):
        self._f.close()
        return False

    def __getattr__(self, name):
        return getattr(self._f, name)


def run_in_child(root, fn, target=None, variant="before"):
    """Fork; in the child install the hook and call fn().

    target=None: counting mode -> returns list of (event, relative path) mutations.
    target=k (1-based): the child dies at mutation k (variant 'before' | 'truncated' | 'half').
    Returns ('counted', events) | ('crashed', code) | ('completed', None) | ('failed', text)."""
    root = os.path.abspath(root)
    r, w = os.pipe()
    pid = os.fork()
    if pid == 0:
        os.close(r)
        code = 0
        try:
            state = {"n": 0, "armed": None, "events": [], "unknown": set()}
            real_open = builtins.open

            def hook(event, args):
                p = _is_mutation(event, args, root)
                if p is None:
                    return
                state["n"] += 1
                if target is None:
                    state["events"].append((event, os.path.relpath(p, root), event == "open" and not isinstance(args[2] if len(args) > 2 else None, type(None))))
                elif state["n"] == target:
                    if variant == "before":
                        os._exit(98)
                    if variant == "after":
                        # die as soon as this very call has returned: its effect is on disk, nothing that Python
                        # still holds in user-space buffers (a file not yet closed) is
                        def _die(frame, ev, arg):
                            if frame.f_code is hook.__code__:
                                return  # the hook's own return; the audited call has not run yet
                            os._exit(98)  # first event after the audited call: nothing else has run since

                        sys.setprofile(_die)
                        return
                    if event == "open":
                        state["armed"] = os.path.abspath(p)
                    else:
                        os._exit(96)  # variant not applicable to this mutation

            def patched_open(file, mode="r", *a, **kw):
                f = real_open(file, mode, *a, **kw)
                if state["armed"] is not None and isinstance(file, (str, bytes, os.PathLike)) and os.path.abspath(os.fsdecode(file)) == state["armed"]:
                    state["armed"] = None
                    if variant == "truncated":
                        os._exit(97)
                    return _HalfWriter(f)
                return f

            sys.addaudithook(hook)
            builtins.open = patched_open
            import io

            io.open = patched_open
            try:
                fn()
            except BaseException as e:  # the operation itself failed without a crash
                import traceback

                os.write(w, ("F" + traceback.format_exc()[-1500:]).encode("utf-8", "replace"))
                os._exit(3)
            if target is None:
                import json

                os.write(w, ("C" + json.dumps(state["events"])).encode())
            else:
                os.write(w, b"D")
        finally:
            os._exit(code)
    os.close(w)
    chunks = []
    while True:
        b = os.read(r, 65536)
        if not b:
            break
        chunks.append(b)
    os.close(r)
    _, status = os.waitpid(pid, 0)
    data = b"".join(chunks)
    code = os.waitstatus_to_exitcode(status)
    if data[:1] == b"C":
        import json

        return "counted", json.loads(data[1:].decode())
    if data[:1] == b"F":
        return "failed", data[1:].decode("utf-8", "replace")
    if code in (96,):
        return "not-applicable", code
    if code in (97, 98):
        return "crashed", code
    if data[:1] == b"D":
        return "completed", None
    return "failed", f"child exit code {code}, output {data[:200]!r}"


def copy_store(src, dst):
    if os.path.exists(dst):
        shutil.rmtree(dst)
    shutil.copytree(src, dst, symlinks=True)
