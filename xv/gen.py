"""Hypothesis strategies: member names, calendar objects, vCards, invalid bodies.

Soundness first: only shapes that real clients emit and whose canonical
spelling is unambiguous (see DESIGN.md 2.5).
"""
from hypothesis import strategies as st

# ---------------------------------------------------------------------------
# names

NAME_SPECIALS = " %#?;+&=@,'!$~:"
NAME_PLAIN = "abcXYZ019_-"
NAME_NONASCII = ["é", "ü", "ß", "日", "ж", "é", "😀"]

_name_char = st.one_of(
    st.sampled_from(list(NAME_PLAIN)),
    st.sampled_from(list(NAME_PLAIN)),
    st.sampled_from(list(NAME_SPECIALS)),
    st.sampled_from(NAME_NONASCII),
)


def _ok_stem(s):
    if not s or s[0] == "." or s[0] == " " or s[-1] == " ":
        return False
    if s in (".", ".."):
        return False
    if s.endswith(".tmp"):
        return False
    return True


@st.composite
def member_name(draw, ext=".ics", fancy=True):
    if not fancy:
        stem = draw(st.text(st.sampled_from(list(NAME_PLAIN)), min_size=1, max_size=6))
        if draw(st.integers(0, 9)) == 0:
            return "." + stem + ext  # a hidden-file name is a legitimate member name
    else:
        stem = draw(
            st.one_of(
                st.lists(_name_char, min_size=1, max_size=8).map("".join),
                st.sampled_from(["%41", "a%2Fb", "a b", "x#y", "q?r=1", "semi;colon", "plus+plus", "co:lon", "café", "%", "a%", "%zz", ".dot", ".dot", "..two", ".a b"]),
            )
        )
    stem = stem.replace("/", "").replace("\x00", "")
    if not _ok_stem(stem) and stem not in (".dot", "..two", ".a b"):  # hidden-file names are legitimate member names
        stem = "m" + stem.strip() + "m"
    return stem + ext


def name_class(name):
    cls = set()
    stem = name.rsplit(".", 1)[0]
    for ch in stem:
        if ch in NAME_SPECIALS:
            cls.add("special:" + ch)
        elif ord(ch) > 127:
            cls.add("nonascii")
    if not cls:
        cls.add("plain")
    return sorted(cls)


# ---------------------------------------------------------------------------
# iCalendar

UID_POOL = ["u1", "u2", "u3", "u4", "Abc", "abc", "id with  spaces", "esc\\,a\\;b", "ünï-日"]

TEXT_ALPHA = list("abcdefgh XYZ 0123 .-_:/\"'()!?@#%&*+=<>[]{}|~^`$") + ["é", "ü", "日本", "ж", "😀"]
TEXT_ESC = ["\\,", "\\;", "\\\\", "\\n", "\\\\n", "\\\\\\,", "\\\\\\;"]  # the last three: a literal backslash followed by 'n' (not an escape), by a comma, by a semicolon - all in canonical spelling (backslash + capital N is left to the K8 probe of C01)


@st.composite
def text_value(draw, min_size=1, max_size=30):
    parts = draw(st.lists(st.one_of(st.sampled_from(TEXT_ALPHA), st.sampled_from(TEXT_ALPHA), st.sampled_from(TEXT_ESC)), min_size=min_size, max_size=max_size))
    s = "".join(parts).strip()
    if not s:
        s = "x"
    return s


def _dt(y, mo, d, h=0, mi=0, s=0):
    return f"{y:04d}{mo:02d}{d:02d}T{h:02d}{mi:02d}{s:02d}"


TZIDS = ["Europe/Amsterdam", "America/New_York", "Pacific/Kiritimati", "Europe/London", "UTC"]  # London: offset zero in winter without being UTC


@st.composite
def date_prop(draw, name, allow_date=True):
    """A DATE / floating / UTC / TZID date-time property line (name, params, value)."""
    y = draw(st.integers(2019, 2022))
    mo = draw(st.integers(1, 12))
    d = draw(st.integers(1, 28))
    kinds = ["utc", "floating", "tzid"] + (["date"] if allow_date else [])
    kind = draw(st.sampled_from(kinds))
    if kind == "date":
        return (name, [("VALUE", ["DATE"])], f"{y:04d}{mo:02d}{d:02d}")
    h = draw(st.integers(0, 23))
    mi = draw(st.sampled_from([0, 15, 30, 59]))
    v = _dt(y, mo, d, h, mi, 0)
    if kind == "utc":
        return (name, [], v + "Z")
    if kind == "floating":
        return (name, [], v)
    return (name, [("TZID", [draw(st.sampled_from(TZIDS[:4]))])], v)


DURATIONS = ["PT15M", "PT1H", "P1D", "PT1H30M", "P7D", "P0D", "P2DT3H"]  # canonical spellings only (PT0S is re-spelled P0D by the library)


@st.composite
def attendee(draw, name="ATTENDEE"):
    params = []
    if draw(st.booleans()):
        cn = draw(st.sampled_from(["John Doe", "Doe, Jane", "x", "Zoë", "a;b", "q:r"]))
        params.append(("CN", [cn]))
    if draw(st.booleans()):
        params.append(("ROLE", [draw(st.sampled_from(["CHAIR", "REQ-PARTICIPANT", "OPT-PARTICIPANT"]))]))
    if draw(st.booleans()):
        params.append(("PARTSTAT", [draw(st.sampled_from(["ACCEPTED", "DECLINED", "NEEDS-ACTION"]))]))
    addr = draw(st.sampled_from(["mailto:a@example.com", "mailto:b@example.com", "mailto:c.d@example.org"]))
    return (name, params, addr)


@st.composite
def component(draw, kind, uid):
    """Returns (kind, props, children)."""
    props = []
    if uid is not None:
        props.append(("UID", [], uid))
    if draw(st.booleans()):
        props.append(("DTSTAMP", [], "20200101T000000Z"))
    if kind == "VEVENT":
        start = draw(date_prop("DTSTART"))
        props.append(start)
        end = draw(st.sampled_from(["none", "dtend", "duration"]))
        if end == "dtend":
            # same value type as DTSTART, later
            n, ps, v = start
            if ps and ps[0][0] == "VALUE":
                props.append(("DTEND", ps, str(int(v) + 1) if not v.endswith("28") else v[:4] + v[4:6] + "28"))
            else:
                props.append(("DTEND", ps, v[:9] + "235900" + ("Z" if v.endswith("Z") else "")))
        elif end == "duration":
            props.append(("DURATION", [], draw(st.sampled_from(DURATIONS))))
    elif kind == "VTODO":
        if draw(st.booleans()):
            props.append(draw(date_prop("DTSTART")))
        if draw(st.booleans()):
            props.append(draw(date_prop("DUE")))
        if draw(st.booleans()):
            props.append(("COMPLETED", [], _dt(2020, draw(st.integers(1, 12)), 3, 4) + "Z"))
        if draw(st.booleans()):
            props.append(("STATUS", [], draw(st.sampled_from(["NEEDS-ACTION", "COMPLETED", "IN-PROCESS", "CANCELLED"]))))
        if draw(st.booleans()):
            props.append(("PERCENT-COMPLETE", [], str(draw(st.integers(0, 100)))))
    elif kind == "VJOURNAL":
        if draw(st.booleans()):
            props.append(draw(date_prop("DTSTART")))
    elif kind == "VFREEBUSY":
        props.append(("DTSTART", [], "20200301T000000Z"))
        props.append(("DTEND", [], "20200302T000000Z"))
        if draw(st.booleans()):
            props.append(("FREEBUSY", [], "20200301T100000Z/20200301T110000Z"))
    if draw(st.booleans()):
        props.append(("CREATED", [], _dt(2019, draw(st.integers(1, 12)), 2, 3) + "Z"))
    if draw(st.booleans()) or kind == "VEVENT":
        params = []
        if draw(st.integers(0, 4)) == 0:
            params.append(("LANGUAGE", [draw(st.sampled_from(["en", "nl", "en-GB"]))]))
        props.append(("SUMMARY", params, draw(text_value())))
    if draw(st.integers(0, 2)) == 0:
        # a property may be present with an empty value (clients write 'DESCRIPTION:' for a cleared field)
        props.append(("DESCRIPTION", [], draw(text_value(max_size=60)) if draw(st.integers(0, 7)) else ""))
    if draw(st.integers(0, 3)) == 0:
        props.append(("LOCATION", [], draw(text_value(max_size=12)) if draw(st.integers(0, 5)) else ""))
    if draw(st.integers(0, 3)) == 0:
        cats = draw(st.lists(st.sampled_from(["work", "home", "a\\,b", "Zoë", "x y"]), min_size=1, max_size=3))
        props.append(("CATEGORIES", [], ",".join(cats)))
    if kind in ("VEVENT", "VTODO", "VJOURNAL"):
        for _ in range(draw(st.sampled_from([0, 0, 0, 1, 2]))):
            props.append(draw(attendee()))
        if draw(st.integers(0, 4)) == 0:
            props.append(draw(attendee("ORGANIZER")))
        if kind != "VJOURNAL" and draw(st.integers(0, 4)) == 0 and any(p[0] == "DTSTART" for p in props):
            props.append(("RRULE", [], draw(st.sampled_from(["FREQ=DAILY;COUNT=3", "FREQ=WEEKLY;BYDAY=MO,TU", "FREQ=MONTHLY;INTERVAL=2", "FREQ=YEARLY;UNTIL=20251231T000000Z"]))))
        if draw(st.integers(0, 5)) == 0:
            props.append(("SEQUENCE", [], str(draw(st.sampled_from([0, 0, 0, 1, 2, 5, 9])))))
        if draw(st.integers(0, 5)) == 0:
            props.append(("CLASS", [], draw(st.sampled_from(["PUBLIC", "PRIVATE", "CONFIDENTIAL"]))))
    if draw(st.integers(0, 3)) == 0:
        xp = []
        if draw(st.booleans()):
            xp.append(("X-P", [draw(st.sampled_from(["1", "two words", "a,b"]))]))
        props.append(("X-" + draw(st.sampled_from(["FOO", "MOZ-GENERATION", "APPLE-THING"])), xp, draw(text_value(max_size=10))))
    children = []
    if kind in ("VEVENT", "VTODO") and draw(st.integers(0, 3)) == 0:
        children.append(("VALARM", [("ACTION", [], "DISPLAY"), ("TRIGGER", [], draw(st.sampled_from(["-PT15M", "P0D", "-P1D"]))), ("DESCRIPTION", [], draw(text_value(max_size=8)))], []))
    return (kind, props, children)


VTIMEZONE = (
    "VTIMEZONE",
    [("TZID", [], "Europe/Amsterdam")],
    [
        ("STANDARD", [("DTSTART", [], "19701025T030000"), ("TZOFFSETFROM", [], "+0200"), ("TZOFFSETTO", [], "+0100"), ("TZNAME", [], "CET"), ("RRULE", [], "FREQ=YEARLY;BYDAY=-1SU;BYMONTH=10")], []),
        ("DAYLIGHT", [("DTSTART", [], "19700329T020000"), ("TZOFFSETFROM", [], "+0100"), ("TZOFFSETTO", [], "+0200"), ("TZNAME", [], "CEST"), ("RRULE", [], "FREQ=YEARLY;BYDAY=-1SU;BYMONTH=3")], []),
    ],
)


@st.composite
def render_style(draw):
    return {
        "eol": draw(st.sampled_from(["\r\n", "\r\n", "\n"])),
        "fold": draw(st.sampled_from([0, 0, 75, 40, 17])),
        "case": draw(st.sampled_from(["upper", "upper", "lower", "title"])),
        "shuffle": draw(st.integers(0, 5)),
        "final_eol": draw(st.sampled_from([True, True, False])),
    }


def _needs_quote(v):
    return any(c in v for c in ",;:")


def render_line(name, params, value, style):
    if style["case"] == "lower":
        name = name.lower()
    elif style["case"] == "title":
        name = name.title()
    out = name
    for k, vs in params:
        if style["case"] == "lower":
            k = k.lower()
        out += ";" + k + "=" + ",".join(('"' + v + '"') if (_needs_quote(v) or style.get("quote_all")) else v for v in vs)
    out += ":" + value
    return out


def fold(line, width, eol):
    if not width or len(line) <= width:
        return line
    parts = [line[:width]]
    i = width
    while i < len(line):
        parts.append(" " + line[i : i + width - 1])
        i += width - 1
    return eol.join(parts)


def render_component(comp, style, depth=0):
    kind, props, children = comp
    lines = ["BEGIN:" + kind]
    props = list(props)
    k = style["shuffle"]
    if k and len(props) > 1:
        k = k % len(props)
        props = props[k:] + props[:k]
    for n, ps, v in props:
        lines.append(render_line(n, ps, v, style))
    for ch in children:
        lines.extend(render_component(ch, style, depth + 1))
    lines.append("END:" + kind)
    return lines


def render(comp, style):
    lines = render_component(comp, style)
    eol = style["eol"]
    text = eol.join(fold(ln, style["fold"], eol) for ln in lines)
    if style["final_eol"]:
        text += eol
    return text.encode("utf-8")


@st.composite
def calendar_object(draw, uid=None, kinds=("VEVENT", "VTODO", "VJOURNAL", "VFREEBUSY"), multi=True, style=None, with_tz=True):
    """A valid VCALENDAR.  Returns dict(raw=bytes, uid=raw UID string or None, kinds=[...])."""
    if uid is None:
        uid = draw(st.sampled_from(UID_POOL))
    elif uid == "":
        uid = None
    kind = draw(st.sampled_from(list(kinds)))
    comps = []
    tz = with_tz and draw(st.integers(0, 5)) == 0
    if tz:
        comps.append(VTIMEZONE)
    comps.append(draw(component(kind, uid)))
    if multi and kind in ("VEVENT", "VTODO") and draw(st.integers(0, 4)) == 0:
        # recurrence override: same UID, RECURRENCE-ID
        k2, p2, c2 = draw(component(kind, uid))
        p2 = [p for p in p2 if p[0] != "RRULE"] + [("RECURRENCE-ID", [], "20200105T100000Z")]
        comps.append((k2, p2, c2))
    props = [("VERSION", [], "2.0"), ("PRODID", [], draw(st.sampled_from(["-//xv//test//EN", "-//Example Corp.//CalDAV Client//EN"])))]
    if draw(st.integers(0, 5)) == 0:
        props.append(("CALSCALE", [], "GREGORIAN"))
    cal = ("VCALENDAR", props, comps)
    sty = style or draw(render_style())
    return {"raw": render(cal, sty), "uid": uid, "kinds": [c[0] for c in comps], "style": sty}


# ---------------------------------------------------------------------------
# vCards

VCARD_NAMES = ["John Doe", "Jane Roe", "Zoë Müller", "日本 太郎", "o'Neil", "Bob", "alice", "ALICE Cooper"]


@st.composite
def vcard(draw, uid=None, style=None):
    version = draw(st.sampled_from(["3.0", "4.0"]))
    fn = draw(st.sampled_from(VCARD_NAMES))
    props = [("VERSION", [], version), ("FN", [], fn)]
    parts = fn.split(" ", 1)
    props.append(("N", [], (parts[1] if len(parts) > 1 else "") + ";" + parts[0] + ";;;"))
    if uid is None:
        uid = draw(st.sampled_from(UID_POOL[:6]))
    if uid:
        props.append(("UID", [], uid))
    for _ in range(draw(st.integers(0, 3))):
        t = draw(st.sampled_from(["HOME", "WORK", "home", None]))
        if t and draw(st.integers(0, 3)) == 0:
            # a parameter with several values: TYPE=HOME,INTERNET or TYPE=HOME;TYPE=pref
            extra = draw(st.sampled_from(["INTERNET", "pref", "VOICE", "WORK", "home"]))
            params = [("TYPE", [t, extra])] if draw(st.booleans()) else [("TYPE", [t]), ("TYPE", [extra])]
            props.append(("EMAIL", params, draw(st.sampled_from(["john@example.com", "JANE@Example.COM", "zoë@example.org", "bob@work.example"]))))
            continue
        props.append(("EMAIL", [("TYPE", [t])] if t else [], draw(st.sampled_from(["john@example.com", "JANE@Example.COM", "zoë@example.org", "bob@work.example"]))))
    for _ in range(draw(st.integers(0, 2))):
        t = draw(st.sampled_from(["CELL", "VOICE", None]))
        if t and draw(st.integers(0, 2)) == 0:
            props.append(("TEL", [("TYPE", [t, draw(st.sampled_from(["HOME", "WORK", "home"]))])], draw(st.sampled_from(["+1 555 0100", "+31 20 555 0199", "0123"]))))
            continue
        props.append(("TEL", [("TYPE", [t])] if t else [], draw(st.sampled_from(["+1 555 0100", "+31 20 555 0199", "0123"]))))
    if draw(st.booleans()):
        props.append(("NICKNAME", [], draw(st.sampled_from(["Johnny", "jj", "Zoë", "The Boss"]))))
    if draw(st.integers(0, 2)) == 0:
        props.append(("NOTE", [], draw(text_value(max_size=20))))
    if draw(st.integers(0, 3)) == 0:
        props.append(("ORG", [], draw(st.sampled_from(["Example Corp;Sales", "Acme", "Müller GmbH", "", "Acme;", ";Sales", "Acme;;R&D"]))))
    if draw(st.integers(0, 3)) == 0:
        props.append(("CATEGORIES", [], draw(st.sampled_from(["friends", "work,friends", "Zoë", "", "friends,,work", "work,"]))))
    if draw(st.integers(0, 4)) == 0:
        props.append(("ADR", [("TYPE", ["HOME"])], ";;1 Main St;Springfield;IL;12345;USA"))
    if draw(st.integers(0, 4)) == 0:
        props.append(("X-CUSTOM", [], draw(text_value(max_size=10))))
    sty = dict(style or draw(render_style()))
    sty["case"] = "upper"  # vobject upper-cases; names are case-insensitive but keep cards conventional
    sty["shuffle"] = 0
    card = ("VCARD", props, [])
    return {"raw": render(card, sty), "uid": uid or None, "fn": fn, "style": sty, "version": version}


# ---------------------------------------------------------------------------
# invalid bodies (C14's classes)


@st.composite
def invalid_calendar(draw):
    good = draw(calendar_object())["raw"]
    kind = draw(st.sampled_from(["text", "empty", "truncated", "ctrl", "noend", "html"]))
    if kind == "text":
        return kind, draw(st.sampled_from([b"hello world", b"this is not a calendar\r\n", b"BEGIN", b"{\"json\": true}", "ünï".encode()]))
    if kind == "empty":
        return kind, b""
    if kind == "truncated":
        # cut inside the object so that at least one END is missing
        lines = good.replace(b"\r\n", b"\n").split(b"\n")
        lines = [ln for ln in lines if ln]
        ends = [i for i, ln in enumerate(lines) if ln.upper().startswith(b"END:")]
        cut = draw(st.integers(1, ends[-1]))
        return kind, b"\r\n".join(lines[:cut]) + b"\r\n"
    if kind == "ctrl":
        ch = draw(st.sampled_from([b"\x01", b"\x0c"]))
        prop = draw(st.sampled_from([b"SUMMARY", b"DESCRIPTION", b"LOCATION", b"COMMENT"]))
        inner = draw(st.sampled_from(["VEVENT", "VTODO"]))
        body = (
            "BEGIN:VCALENDAR\r\nVERSION:2.0\r\nPRODID:-//xv//EN\r\nBEGIN:%s\r\nUID:%s\r\nDTSTAMP:20200101T000000Z\r\nDTSTART:20200101T000000Z\r\n" % (inner, draw(st.sampled_from(UID_POOL[:4])))
        ).encode() + prop + b":bad" + ch + b"char\r\n" + ("END:%s\r\nEND:VCALENDAR\r\n" % inner).encode()
        return kind, body
    if kind == "noend":
        return kind, good.replace(b"END:VCALENDAR", b"").replace(b"end:vcalendar", b"").replace(b"End:Vcalendar", b"")
    return kind, b"<html><body>BEGIN:VCALENDAR</body></html>"


@st.composite
def invalid_vcard(draw):
    kind = draw(st.sampled_from(["text", "empty", "nobegin", "noend", "truncated", "trailing"]))
    if kind == "trailing":
        # one complete card followed by something that is not part of it
        good = b"BEGIN:VCARD\r\nVERSION:3.0\r\nFN:John Doe\r\nN:Doe;John;;;\r\nUID:trailing\r\nEND:VCARD\r\n"
        return kind, good + draw(st.sampled_from([b"and some more text\r\n", b"\x00\xff junk", b"BEGIN:VCARD\r\nVERSION:3.0\r\nFN:Second", b"FN:Stray Line\r\n"]))
    if kind == "text":
        return kind, draw(st.sampled_from([b"hello", b"FN:John\r\n", b"<xml/>"]))
    if kind == "empty":
        return kind, b""
    if kind == "nobegin":
        return kind, b"VERSION:3.0\r\nFN:John Doe\r\nN:Doe;John;;;\r\nEND:VCARD\r\n"
    if kind == "noend":
        return kind, b"BEGIN:VCARD\r\nVERSION:3.0\r\nFN:John Doe\r\nN:Doe;John;;;\r\n"
    return kind, b"BEGIN:VCARD\r\nVERSION:3.0\r\nFN:John D"
