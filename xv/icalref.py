"""Independent RFC 5545 / RFC 6350 content-line parser and canonicaliser.

Shares no code with `icalendar` or `vobject`.  Used as the oracle for
"property-for-property identical", as the independent parser of C14 and as the
data model of the reference filter evaluators (C10-C12).
"""


class ParseError(Exception):
    pass


def unfold(data):
    """bytes -> list of logical lines (str)."""
    if isinstance(data, bytes):
        try:
            text = data.decode("utf-8")
        except UnicodeDecodeError as e:
            raise ParseError(f"not utf-8: {e}")
    else:
        text = data
    raw = text.replace("\r\n", "\n").split("\n")
    lines = []
    for ln in raw:
        if ln[:1] in (" ", "\t") and lines:
            lines[-1] += ln[1:]
        else:
            lines.append(ln)
    return [ln for ln in lines if ln != ""]


class Prop:
    __slots__ = ("name", "params", "value", "group")

    def __init__(self, name, params, value, group=None):
        self.name = name  # upper-cased
        self.params = params  # list of (NAME upper, [values])
        self.value = value  # raw (still escaped) value string
        self.group = group

    def param(self, name):
        """All values of a parameter (list) or None."""
        out = None
        for k, vs in self.params:
            if k == name.upper():
                out = (out or []) + list(vs)
        return out

    def key(self):
        return (
            self.name,
            frozenset((k, tuple(vs)) for k, vs in self.params),
            self.value.replace("\\N", "\\n"),
        )

    def __repr__(self):
        return f"Prop({self.name!r}, {self.params!r}, {self.value!r})"


def parse_line(line):
    """'NAME;P=v,"w":value' -> Prop."""
    n = len(line)
    i = 0
    while i < n and line[i] not in ";:":
        i += 1
    if i == n:
        raise ParseError(f"no value separator in {line!r}")
    name = line[:i]
    if not name:
        raise ParseError(f"empty property name in {line!r}")
    group = None
    if "." in name:
        group, name = name.rsplit(".", 1)
    params = []
    while i < n and line[i] == ";":
        i += 1
        j = i
        while j < n and line[j] not in "=;:":
            j += 1
        pname = line[i:j]
        vals = []
        if j < n and line[j] == "=":
            j += 1
            while True:
                if j < n and line[j] == '"':
                    k = line.find('"', j + 1)
                    if k < 0:
                        raise ParseError(f"unterminated quote in {line!r}")
                    vals.append(line[j + 1 : k])
                    j = k + 1
                else:
                    k = j
                    while k < n and line[k] not in ",;:":
                        k += 1
                    vals.append(line[j:k])
                    j = k
                if j < n and line[j] == ",":
                    j += 1
                    continue
                break
        else:
            # vCard 2.1 style bare parameter
            vals = []
        params.append((pname.upper(), vals))
        i = j
    if i >= n or line[i] != ":":
        raise ParseError(f"no value separator in {line!r}")
    return Prop(name.upper(), params, line[i + 1 :], group)


class Comp:
    __slots__ = ("name", "props", "children")

    def __init__(self, name):
        self.name = name
        self.props = []
        self.children = []

    def get(self, name):
        """All properties called name (list)."""
        name = name.upper()
        return [p for p in self.props if p.name == name]

    def first(self, name):
        ps = self.get(name)
        return ps[0] if ps else None

    def canon(self):
        return (
            self.name,
            tuple(sorted(p.key() for p in self.props)),
            tuple(c.canon() for c in self.children),
        )

    def canon_unordered(self):
        return (
            self.name,
            tuple(sorted(p.key() for p in self.props)),
            tuple(sorted(c.canon_unordered() for c in self.children)),
        )

    def walk(self):
        yield self
        for c in self.children:
            yield from c.walk()

    def __repr__(self):
        return f"Comp({self.name}, {len(self.props)} props, {self.children!r})"


def parse(data):
    """bytes -> list of top-level Comp."""
    stack = []
    top = []
    for line in unfold(data):
        p = parse_line(line)
        if p.name == "BEGIN" and not p.params:
            c = Comp(p.value.strip().upper())
            if stack:
                stack[-1].children.append(c)
            else:
                top.append(c)
            stack.append(c)
        elif p.name == "END" and not p.params:
            if not stack or stack[-1].name != p.value.strip().upper():
                raise ParseError(f"unbalanced END:{p.value}")
            stack.pop()
        else:
            if not stack:
                raise ParseError(f"property outside component: {line!r}")
            stack[-1].props.append(p)
    if stack:
        raise ParseError(f"missing END:{stack[-1].name}")
    return top


def parse_one(data, root):
    top = parse(data)
    if len(top) != 1 or top[0].name != root:
        raise ParseError(f"expected exactly one {root}, got {[c.name for c in top]}")
    return top[0]


def unescape_text(s):
    out = []
    i = 0
    n = len(s)
    while i < n:
        ch = s[i]
        if ch == "\\" and i + 1 < n:
            nx = s[i + 1]
            if nx in "nN":
                out.append("\n")
            else:
                out.append(nx)
            i += 2
        else:
            out.append(ch)
            i += 1
    return "".join(out)


def split_unescaped(s, sep):
    """Split on sep unless preceded by a backslash."""
    parts = []
    cur = []
    i = 0
    n = len(s)
    while i < n:
        ch = s[i]
        if ch == "\\" and i + 1 < n:
            cur.append(s[i : i + 2])
            i += 2
        elif ch == sep:
            parts.append("".join(cur))
            cur = []
            i += 1
        else:
            cur.append(ch)
            i += 1
    parts.append("".join(cur))
    return parts


def calendar_uid(data):
    """UID of the first component that has one (TEXT-unescaped), or None."""
    cal = parse_one(data, "VCALENDAR")
    for c in cal.children:
        p = c.first("UID")
        if p is not None:
            return unescape_text(p.value)
    return None


def same_calendar(a, b):
    """Property-for-property equality of two serialised calendar objects."""
    try:
        return parse_one(a, "VCALENDAR").canon() == parse_one(b, "VCALENDAR").canon()
    except ParseError:
        return False
