"""Drivers: one data directory served through the WSGI callable and through a
real aiohttp server on a loopback port (same routing as xandikos.web.main).

A `World` owns a scratch directory, a XandikosBackend/XandikosApp pair and, on
demand, an aiohttp server running in a background thread.  `request()` sends
one request through the chosen front end and returns a `Resp`.
"""
from . import env  # noqa: F401  (must be first)

import asyncio
import http.client
import io
import os
import shutil
import tempfile
import threading
import urllib.parse


class Resp:
    __slots__ = ("status", "headers", "body", "exc")

    def __init__(self, status, headers, body, exc=None):
        self.status = status
        self.headers = headers  # list of (name, value)
        self.body = body
        self.exc = exc

    def header(self, name, default=None):
        name = name.lower()
        for k, v in self.headers:
            if k.lower() == name:
                return v
        return default

    def __repr__(self):
        return f"<Resp {self.status} {self.body[:120]!r}{' exc=' + self.exc if self.exc else ''}>"


class _AioServer:
    """aiohttp server in a background thread with the routing of web.main."""

    def __init__(self, world):
        self.world = world
        self.loop = None
        self.port = None
        self._ready = threading.Event()
        self._thread = threading.Thread(target=self._run, daemon=True)
        self._thread.start()
        self._ready.wait(20)
        if self.port is None:
            raise RuntimeError("aiohttp server did not start")
        self.conn = None

    def _run(self):
        from aiohttp import web
        from xandikos.web import WELLKNOWN_DAV_PATHS, RedirectDavHandler

        world = self.world
        route_prefix = world.prefix
        loop = asyncio.new_event_loop()
        asyncio.set_event_loop(loop)
        self.loop = loop

        async def xandikos_handler(request):
            return await world.app.aiohttp_handler(request, route_prefix)

        async def start():
            app = web.Application()
            for path in WELLKNOWN_DAV_PATHS:
                app.router.add_route("*", path, RedirectDavHandler(route_prefix).__call__)
            if route_prefix.strip("/"):
                xandikos_app = web.Application()
                xandikos_app.router.add_route("*", "/{path_info:.*}", xandikos_handler)

                async def redirect_to_subprefix(request):
                    return web.HTTPFound(route_prefix)

                app.router.add_route("*", "/", redirect_to_subprefix)
                app.add_subapp(route_prefix, xandikos_app)
            else:
                app.router.add_route("*", "/{path_info:.*}", xandikos_handler)
            self.runner = web.AppRunner(app)
            await self.runner.setup()
            site = web.TCPSite(self.runner, "127.0.0.1", 0)
            await site.start()
            self.port = site._server.sockets[0].getsockname()[1]
            self._ready.set()

        loop.run_until_complete(start())
        loop.run_forever()
        loop.run_until_complete(self.runner.cleanup())
        loop.close()

    def stop(self):
        if self.conn is not None:
            try:
                self.conn.close()
            except Exception:
                pass
        if self.loop is not None:
            self.loop.call_soon_threadsafe(self.loop.stop)
            self._thread.join(10)

    def request(self, method, target, headers, body):
        for attempt in range(2):
            if self.conn is None:
                self.conn = http.client.HTTPConnection("127.0.0.1", self.port, timeout=60)
            try:
                c = self.conn
                c.putrequest(method, target, skip_host=True, skip_accept_encoding=True)
                c.putheader("Host", "localhost")
                has_len = False
                for k, v in headers:
                    c.putheader(k, v.encode("utf-8") if isinstance(v, str) else v)
                    if k.lower() == "content-length":
                        has_len = True
                if body is not None and not has_len:
                    c.putheader("Content-Length", str(len(body)))
                c.endheaders(body if body else None)
                r = c.getresponse()
                data = r.read()
                return Resp(r.status, r.getheaders(), data)
            except (http.client.RemoteDisconnected, ConnectionError, http.client.BadStatusLine, BrokenPipeError):
                try:
                    self.conn.close()
                except Exception:
                    pass
                self.conn = None
                if attempt == 1:
                    raise


def raw_http(port, request_bytes, timeout=30):
    """Send raw bytes, return (status, headers, body) parsed leniently.  `port`: TCP port on the
    loopback interface, or the path of a unix-domain socket."""
    import socket

    if isinstance(port, str):
        s = socket.socket(socket.AF_UNIX, socket.SOCK_STREAM)
        s.settimeout(timeout)
        s.connect(port)
    else:
        s = socket.create_connection(("127.0.0.1", port), timeout=timeout)
    try:
        try:
            s.sendall(request_bytes)
        except (BrokenPipeError, ConnectionResetError):
            pass  # answered before the body was read
        buf = b""
        while True:
            try:
                chunk = s.recv(65536)
            except (socket.timeout, ConnectionResetError):
                break
            if not chunk:
                break
            buf += chunk
    finally:
        s.close()
    head, _, rest = buf.partition(b"\r\n\r\n")
    lines = head.split(b"\r\n")
    try:
        status = int(lines[0].split(b" ")[1])
    except Exception:
        status = 0
    headers = []
    for ln in lines[1:]:
        k, _, v = ln.partition(b":")
        headers.append((k.decode("latin-1"), v.strip().decode("latin-1")))
    return Resp(status, headers, rest)


class World:
    def __init__(self, prefix="/", principal="/user/", index_threshold=None, paranoid=False, root=None, create_principal=True):
        self.prefix = prefix if prefix.endswith("/") else prefix + "/"
        self.principal = principal
        self.index_threshold = index_threshold
        self.paranoid = paranoid
        self.own_root = root is None
        self.scratch = root or tempfile.mkdtemp(prefix="xv-", dir=env.scratch_root())
        self.root = os.path.join(self.scratch, "data")
        os.makedirs(self.root, exist_ok=True)
        self.aio = None
        self.restarts = 0
        self._create_principal = create_principal
        self._boot(first=True)

    # -- lifecycle -------------------------------------------------------
    def _boot(self, first=False):
        from xandikos import web

        web.open_store_from_path.cache_clear()
        self.backend = web.XandikosBackend(self.root, paranoid=self.paranoid, index_threshold=self.index_threshold)
        self.backend._mark_as_principal(self.principal)
        if first and self._create_principal:
            self.backend.create_principal(self.principal, create_defaults=False)
        self.app = web.XandikosApp(self.backend, current_user_principal=self.principal)

    def restart(self):
        """In-process restart: drop every cached store, new backend and app."""
        self.restarts += 1
        self._boot()

    def close(self):
        if self.aio is not None:
            self.aio.stop()
            self.aio = None
        try:
            from xandikos import web

            web.open_store_from_path.cache_clear()
        except Exception:
            pass
        if self.own_root:
            shutil.rmtree(self.scratch, ignore_errors=True)

    def fs_path(self, relpath):
        return os.path.join(self.root, relpath.strip("/"))

    # -- requests --------------------------------------------------------
    def url(self, path):
        """Request target for an app-relative (already percent-encoded) path."""
        return self.prefix.rstrip("/") + path

    def request(self, fe, method, path, headers=None, body=None, raw_target=None):
        """path: percent-encoded path relative to the application root
        (starts with '/').  raw_target overrides the full request target."""
        headers = list((headers or {}).items()) if isinstance(headers, dict) else list(headers or [])
        if fe == "wsgi":
            return self._wsgi(method, path, headers, body, raw_target)
        elif fe == "aio":
            if self.aio is None:
                self.aio = _AioServer(self)
            target = raw_target if raw_target is not None else self.url(path)
            return self.aio.request(method, target, headers, body)
        raise ValueError(fe)

    def _wsgi(self, method, path, headers, body, raw_target=None):
        script_name = self.prefix.rstrip("/")
        if raw_target is not None:
            # a WSGI server splits the target at SCRIPT_NAME
            t = raw_target
            if script_name and t.startswith(script_name):
                t = t[len(script_name):]
            path = t
        p, _, query = path.partition("?")
        path_info = urllib.parse.unquote_to_bytes(p).decode("iso-8859-1")
        environ = {
            "REQUEST_METHOD": method,
            "SCRIPT_NAME": script_name,
            "PATH_INFO": path_info,
            "QUERY_STRING": query,
            "SERVER_NAME": "localhost",
            "SERVER_PORT": "80",
            "SERVER_PROTOCOL": "HTTP/1.1",
            "HTTP_HOST": "localhost",
            "wsgi.version": (1, 0),
            "wsgi.url_scheme": "http",
            "wsgi.input": io.BytesIO(body or b""),
            "wsgi.errors": io.StringIO(),
            "wsgi.multithread": False,
            "wsgi.multiprocess": False,
            "wsgi.run_once": False,
        }
        for k, v in headers:
            kl = k.lower()
            if kl == "content-type":
                environ["CONTENT_TYPE"] = v
            elif kl == "content-length":
                environ["CONTENT_LENGTH"] = v
            else:
                environ["HTTP_" + k.upper().replace("-", "_")] = v
        if body is not None and "CONTENT_LENGTH" not in environ:
            environ["CONTENT_LENGTH"] = str(len(body))
        if body is None and "CONTENT_LENGTH" not in environ:
            environ["CONTENT_LENGTH"] = "0"
        out = {}

        def start_response(status, hdrs, exc_info=None):
            out["status"] = int(status.split(" ", 1)[0])
            out["headers"] = list(hdrs)

        try:
            it = self.app.handle_wsgi_request(environ, start_response)
            data = b"".join(it)
        except Exception as exc:  # an unhandled exception = HTTP 500 in any WSGI server
            import traceback

            tb = traceback.extract_tb(exc.__traceback__)
            where = ""
            for fr in reversed(tb):
                if "xandikos" in fr.filename:
                    where = f"{os.path.basename(fr.filename)}:{fr.lineno}"
                    break
            return Resp(500, [], b"", exc=f"{type(exc).__name__}: {exc} @ {where}")
        if method == "HEAD":
            data = b""
        return Resp(out.get("status", 0), out.get("headers", []), data)
