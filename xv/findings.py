"""Signatures of the known findings listed in known_findings.json (status=known).

A signature recognises exactly one recorded defect from (input, expected,
observed).  Oracles call them only for disagreements; an explained disagreement
is counted, the model adopts the observed outcome and the search goes on.
"""
import configparser
import io


def cfg_roundtrip(value):
    """What Python's configparser returns for a value written to and read from a file."""
    try:
        cp = configparser.ConfigParser(interpolation=None)
        cp["DEFAULT"]["x"] = value
        f = io.StringIO()
        cp.write(f)
        cp2 = configparser.ConfigParser(interpolation=None)
        cp2.read_string(f.getvalue())
        return cp2["DEFAULT"].get("x")
    except Exception:
        return None


def k7_multiline_config_value(meta, value, got):
    """K7: a property value of a collection with file-based metadata (.xandikos) that contains a
    newline is altered by the configparser file format (continuation lines lose their leading
    white space; continuation lines starting with '#' or ';' are comments; empty lines)."""
    return meta == "file" and "\n" in value and got is not None and got != value and got == cfg_roundtrip(value)
