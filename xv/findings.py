"""Signatures of the known findings listed in known_findings.json (status=known).

A signature recognises exactly one recorded defect from (input, expected,
observed).  Oracles call them only for disagreements; an explained disagreement
is counted, the model adopts the observed outcome and the search goes on.
"""
import configparser
import io


def cfg_roundtrip(value):
    """What Python's configparser returns for a value written to and read from a file."""
    try:
        cp = configparser.ConfigParser(interpolation=None)
        cp["DEFAULT"]["x"] = value
        f = io.StringIO()
        cp.write(f)
        cp2 = configparser.ConfigParser(interpolation=None)
        cp2.read_string(f.getvalue())
        return cp2["DEFAULT"].get("x")
    except Exception:
        return None


def k7_multiline_config_value(meta, value, got):
    """K7: a property value of a collection with file-based metadata (.xandikos) that contains a
    newline is altered by the configparser file format (continuation lines lose their leading
    white space; continuation lines starting with '#' or ';' are comments; empty lines)."""
    return meta == "file" and "\n" in value and got is not None and got != value and got == cfg_roundtrip(value)


# ---------------------------------------------------------------------------
# C11


def c11_grid_known(shape, vt, start, end, got):
    return None


def _has_k1_text_match(cf):
    from . import filterref

    for pf in cf.get("props", []):
        if pf.get("text_match") and (pf["name"].upper() == "CATEGORIES" or pf["name"].upper().startswith("X-")):
            return True
    return any(_has_k1_text_match(s) for s in cf.get("comps", []))


def c11_gen_known(flt, raw, got, tz):
    """K1: text-match on CATEGORIES (whole-category equality) and on X- properties (values of
    unknown type: whole-value equality) is not a substring match.  Explains a disagreement iff the filter contains such a text-match
    and the server's verdict equals the reference evaluated with exactly that substitution."""
    from . import filterref

    if not _has_k1_text_match(flt):
        return None
    filterref.SEMANTICS[0] = "k1"
    try:
        alt = filterref.calendar_matches(flt, raw, tz)
    finally:
        filterref.SEMANTICS[0] = "rfc"
    if alt is not None and bool(alt) == bool(got):
        return "K1"
    return None


def c11_gen_known_failure(flt, resp):
    return None


# ---------------------------------------------------------------------------
# C12


def c12_known(kind, flt, raw, got):
    return None


# ---------------------------------------------------------------------------
# C10


def _comp_names(cf, out):
    for sub in cf.get("comps", []):
        out.add(sub["name"].upper())
        _comp_names(sub, out)
    return out


def _param_filtered_props(cf, out):
    for pf in cf.get("props", []):
        if pf.get("params"):
            out.add(pf["name"].upper())
    for sub in cf.get("comps", []):
        _param_filtered_props(sub, out)
    return out


def c10_known(flt, results, labels, ref, current=None):
    """K5: the query index stores one list of values per (file, key); for a resource that holds
    several components of the type the filter addresses (recurrence overrides, two VTODOs) the
    indexed evaluation combines values of different components, so its verdict for that resource
    can differ from evaluating the filter component by component.  Explains a disagreement iff all
    configurations answered without error and every resource on which some configuration differs
    from the never-indexing one holds >= 2 components of a type named in the filter."""
    from . import icalref

    if current is None or any(r[0] != "ok" for r in results):
        return None
    types = _comp_names(flt, set())
    base = set(results[ref][1])
    diff = set()
    for r in results:
        diff |= set(r[1]) ^ base
    if not diff:
        return None
    k5 = True
    for n in diff:
        raw = current.get(n)
        if raw is None:
            return None
        try:
            cal = icalref.parse_one(raw, "VCALENDAR")
        except icalref.ParseError:
            return None
        counts = {}
        for c in cal.walk():
            counts[c.name] = counts.get(c.name, 0) + 1
        if not any(counts.get(t, 0) >= 2 for t in types):
            k5 = False
            # K14: same flattening, across the instances of one property: a prop-filter with a param-filter on a
            # property that occurs >= 2 times in one component of the resource
            pnames = _param_filtered_props(flt, set())
            if not any(len(c.get(pn)) >= 2 for c in cal.walk() for pn in pnames):
                return None
    return "K5" if k5 else "K14"


# ---------------------------------------------------------------------------
# C04


def c04_known(cs, event, rel, variant, verdict):
    return None


# ---------------------------------------------------------------------------
# C01: K8


K8_RE = None


def k8_transform(raw):
    """What the installed iCalendar library makes of a content line on re-serialisation: a literal
    backslash (written \\\\) that is followed by a capital N comes back as the newline escape \\n."""
    import re

    global K8_RE
    if K8_RE is None:
        K8_RE = re.compile(rb"(?<!\\)((?:\\\\)*)\\\\N")
    return K8_RE.sub(rb"\1\\n", raw)


def k8_backslash_capital_n(sent, served):
    """K8: explains a difference between what was PUT and what is served iff the sent object contains a
    literal backslash followed by 'N' in a value and the served object equals the sent one with exactly that
    sequence replaced by the newline escape."""
    from . import icalref

    t = k8_transform(sent)
    if t == sent:
        return False
    try:
        return icalref.parse_one(served, "VCALENDAR").canon() == icalref.parse_one(t, "VCALENDAR").canon()
    except icalref.ParseError:
        return False
