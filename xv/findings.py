"""Signatures of the known findings listed in known_findings.json (status=known).

A signature recognises exactly one recorded defect from (input, expected,
observed).  Oracles call them only for disagreements; an explained disagreement
is counted, the model adopts the observed outcome and the search goes on.
"""
import configparser
import io


def cfg_roundtrip(value):
    """What Python's configparser returns for a value written to and read from a file."""
    try:
        cp = configparser.ConfigParser(interpolation=None)
        cp["DEFAULT"]["x"] = value
        f = io.StringIO()
        cp.write(f)
        cp2 = configparser.ConfigParser(interpolation=None)
        cp2.read_string(f.getvalue())
        return cp2["DEFAULT"].get("x")
    except Exception:
        return None


def k7_multiline_config_value(meta, value, got):
    """K7: a property value of a collection with file-based metadata (.xandikos) that contains a
    newline is altered by the configparser file format (continuation lines lose their leading
    white space; continuation lines starting with '#' or ';' are comments; empty lines)."""
    return meta == "file" and "\n" in value and got is not None and got != value and got == cfg_roundtrip(value)


# ---------------------------------------------------------------------------
# C11


def c11_grid_known(shape, vt, start, end, got):
    return None


def _has_k1_text_match(cf):
    from . import filterref

    for pf in cf.get("props", []):
        if pf.get("text_match") and pf["name"].upper() not in filterref.VTEXT_TYPED:
            return True
        if any(par.get("text_match") for par in pf.get("params", [])):
            return True
    return any(_has_k1_text_match(s) for s in cf.get("comps", []))


def c11_gen_known(flt, raw, got, tz):
    """K1: text-match on CATEGORIES, on values not typed TEXT by the library (X- properties,
    ATTENDEE/ORGANIZER addresses) and on parameter values is whole-value (whole-category) equality
    instead of a substring match.  Explains a disagreement iff the filter contains such a text-match
    and the server's verdict equals the reference evaluated with exactly that substitution."""
    from . import filterref

    if not _has_k1_text_match(flt):
        return None
    filterref.SEMANTICS[0] = "k1"
    try:
        alt = filterref.calendar_matches(flt, raw, tz)
    finally:
        filterref.SEMANTICS[0] = "rfc"
    if alt is not None and bool(alt) == bool(got):
        return "K1"
    return None


def c11_gen_known_failure(flt, resp):
    return None


# ---------------------------------------------------------------------------
# C12


def c12_known(kind, flt, raw, got):
    return None
