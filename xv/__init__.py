"""Verification harness for xandikos (property-based testing and fuzzing)."""
