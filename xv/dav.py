"""Client-side WebDAV helpers: request bodies and multistatus parsing."""
import re
import urllib.parse
import xml.etree.ElementTree as ET
from xml.sax.saxutils import escape as xesc, quoteattr

DAV = "DAV:"
CAL = "urn:ietf:params:xml:ns:caldav"
CARD = "urn:ietf:params:xml:ns:carddav"
CS = "http://calendarserver.org/ns/"
ICAL = "http://apple.com/ns/ical/"
INF = "http://inf-it.com/ns/ab/"
XNS = "http://example.com/ns/xv/"  # properties the server does not know

NSDECL = (
    f'xmlns:D="{DAV}" xmlns:C="{CAL}" xmlns:A="{CARD}" xmlns:S="{CS}" '
    f'xmlns:I="{ICAL}" xmlns:F="{INF}" xmlns:X="{XNS}"'
)
XML_CT = ("Content-Type", "application/xml; charset=utf-8")

PREFIX = {DAV: "D", CAL: "C", CARD: "A", CS: "S", ICAL: "I", INF: "F", XNS: "X"}


def qn(clark):
    """'{ns}name' -> 'P:name' with the fixed prefixes above."""
    m = re.match(r"\{(.*)\}(.*)", clark)
    return f"{PREFIX[m.group(1)]}:{m.group(2)}"


def propfind_body(props=None, allprop=False):
    if allprop:
        inner = "<D:allprop/>"
    else:
        inner = "<D:prop>" + "".join(f"<{qn(p)}/>" for p in props) + "</D:prop>"
    return f'<?xml version="1.0" encoding="utf-8"?><D:propfind {NSDECL}>{inner}</D:propfind>'.encode()


def proppatch_body_ordered(instr, grouped=False):
    """instr: [("set", clark, text) | ("remove", clark)] in document order; grouped: neighbouring
    instructions of one kind share a DAV:set / DAV:remove and its DAV:prop element."""
    parts = []
    kinds = []
    for it in instr:
        if it[0] == "set":
            inner = it[2][1] if isinstance(it[2], (tuple, list)) else xesc(it[2])
            parts.append(f"<{qn(it[1])}>{inner}</{qn(it[1])}>")
        else:
            parts.append(f"<{qn(it[1])}/>")
        kinds.append("set" if it[0] == "set" else "remove")
    out = []
    i = 0
    while i < len(parts):
        j = i + 1
        while grouped and j < len(parts) and kinds[j] == kinds[i]:
            j += 1
        out.append(f"<D:{kinds[i]}><D:prop>" + "".join(parts[i:j]) + f"</D:prop></D:{kinds[i]}>")
        i = j
    parts = out
    return (f'<?xml version="1.0" encoding="utf-8"?><D:propertyupdate {NSDECL}>' + "".join(parts) + "</D:propertyupdate>").encode()


def proppatch_body(sets=(), removes=()):
    """sets: list of (clark, text or raw-xml tuple ('xml', str)); removes: list of clark."""
    parts = []
    for name, val in sets:
        if isinstance(val, tuple):
            inner = val[1]
        else:
            inner = xesc(val)
        parts.append(f"<D:set><D:prop><{qn(name)}>{inner}</{qn(name)}></D:prop></D:set>")
    for name in removes:
        parts.append(f"<D:remove><D:prop><{qn(name)}/></D:prop></D:remove>")
    return (f'<?xml version="1.0" encoding="utf-8"?><D:propertyupdate {NSDECL}>' + "".join(parts) + "</D:propertyupdate>").encode()


def mkcol_body(root, sets, one_prop=False):
    """root: 'D:mkcol' or 'C:mkcalendar'."""
    parts = []
    for name, val in sets:
        inner = val[1] if isinstance(val, tuple) else xesc(val)
        parts.append(f"<{qn(name)}>{inner}</{qn(name)}>")
    if one_prop:
        # all properties inside one DAV:set/DAV:prop, in the given order
        return (f'<?xml version="1.0" encoding="utf-8"?><{root} {NSDECL}><D:set><D:prop>' + "".join(parts) + f"</D:prop></D:set></{root}>").encode()
    return (f'<?xml version="1.0" encoding="utf-8"?><{root} {NSDECL}>' + "".join(f"<D:set><D:prop>{x}</D:prop></D:set>" for x in parts) + f"</{root}>").encode()


def multiget_body(kind, hrefs, props=("{DAV:}getetag",), data=True):
    root = "C:calendar-multiget" if kind == "calendar" else "A:addressbook-multiget"
    dataprop = "<C:calendar-data/>" if kind == "calendar" else "<A:address-data/>"
    pr = "".join(f"<{qn(p)}/>" for p in props) + (dataprop if data else "")
    hs = "".join(f"<D:href>{xesc(h)}</D:href>" for h in hrefs)
    return (f'<?xml version="1.0" encoding="utf-8"?><{root} {NSDECL}><D:prop>{pr}</D:prop>{hs}</{root}>').encode()


def sync_body(token, props=("{DAV:}getetag",), level="1"):
    tok = f"<D:sync-token>{xesc(token)}</D:sync-token>" if token else "<D:sync-token/>"
    pr = "".join(f"<{qn(p)}/>" for p in props)
    return (f'<?xml version="1.0" encoding="utf-8"?><D:sync-collection {NSDECL}>{tok}<D:sync-level>{level}</D:sync-level><D:prop>{pr}</D:prop></D:sync-collection>').encode()


def calquery_body(filter_xml, props=("{DAV:}getetag",), data=True, timezone=None):
    pr = "".join(f"<{qn(p)}/>" for p in props) + ("<C:calendar-data/>" if data else "")
    tz = f"<C:timezone>{xesc(timezone)}</C:timezone>" if timezone else ""
    return (f'<?xml version="1.0" encoding="utf-8"?><C:calendar-query {NSDECL}><D:prop>{pr}</D:prop>{filter_xml}{tz}</C:calendar-query>').encode()


def abquery_body(filter_xml, props=("{DAV:}getetag",), data=True, limit=None):
    pr = "".join(f"<{qn(p)}/>" for p in props) + ("<A:address-data/>" if data else "")
    lim = f"<A:limit><A:nresults>{limit}</A:nresults></A:limit>" if limit is not None else ""
    return (f'<?xml version="1.0" encoding="utf-8"?><A:addressbook-query {NSDECL}><D:prop>{pr}</D:prop>{filter_xml or ""}{lim}</A:addressbook-query>').encode()


MATCH_ALL_CAL = '<C:filter><C:comp-filter name="VCALENDAR"/></C:filter>'


class MSResponse:
    """One DAV:response of a multistatus."""

    def __init__(self, el):
        self.el = el
        h = el.find("{DAV:}href")
        self.href = h.text if h is not None else None
        st = el.find("{DAV:}status")
        self.status = _status_code(st.text) if st is not None else None
        self.error = el.find("{DAV:}error")
        self.props = {}  # clark -> (status, element)
        for ps in el.findall("{DAV:}propstat"):
            s = ps.find("{DAV:}status")
            code = _status_code(s.text) if s is not None else None
            pr = ps.find("{DAV:}prop")
            if pr is not None:
                for p in pr:
                    self.props[p.tag] = (code, p)

    def prop_text(self, clark):
        v = self.props.get(clark)
        if v is None or v[0] != 200:
            return None
        return v[1].text or ""

    def prop_status(self, clark):
        v = self.props.get(clark)
        return v[0] if v else None

    def prop_hrefs(self, clark):
        v = self.props.get(clark)
        if v is None or v[0] != 200:
            return []
        return [h.text for h in v[1].iter("{DAV:}href")]

    def resourcetypes(self):
        v = self.props.get("{DAV:}resourcetype")
        if v is None or v[0] != 200:
            return None
        return sorted(e.tag for e in v[1])


def _status_code(text):
    m = re.match(r"\s*HTTP/\d\.\d\s+(\d{3})", text or "")
    return int(m.group(1)) if m else None


class Multistatus:
    def __init__(self, body):
        self.root = ET.fromstring(body)
        if self.root.tag != "{DAV:}multistatus":
            raise ValueError(f"not a multistatus: {self.root.tag}")
        self.responses = [MSResponse(e) for e in self.root.findall("{DAV:}response")]
        t = self.root.find("{DAV:}sync-token")
        self.sync_token = t.text if t is not None else None
        self.has_sync_token = t is not None

    def has_error(self):
        for r in self.responses:
            if r.error is not None:
                return True
            if r.status is not None and r.status >= 400:
                return True
        return False


def parse_ms(resp):
    """Multistatus of a Resp or None."""
    if resp.status != 207:
        return None
    try:
        return Multistatus(resp.body)
    except Exception:
        return None


def acknowledged(resp):
    """Was a write-type request answered with success?  (DESIGN 1.4)"""
    if resp.status in (200, 201, 204):
        return True
    if resp.status == 207:
        ms = parse_ms(resp)
        if ms is None:
            return False
        if ms.has_error():
            return False
        return True
    return False


def href_path(href):
    """Decoded path of an href as a client resolves it (no base handling)."""
    if href is None:
        return None
    sp = urllib.parse.urlsplit(href)
    return urllib.parse.unquote(sp.path)


def resolve(base_url, href):
    """Resolve an emitted href against the request URL (RFC 3986), return the
    request target (path[?query]) still percent-encoded as sent."""
    u = urllib.parse.urljoin(base_url, href)
    sp = urllib.parse.urlsplit(u)
    t = sp.path or "/"
    if sp.query:
        t += "?" + sp.query
    return t


def quote_name(name):
    """Percent-encode a member name for use in a request target."""
    return urllib.parse.quote(name, safe="")
