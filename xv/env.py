"""Process environment: selects the tree under test and pins ambient state.

Every check imports this module first.  XV_REPO selects the xandikos tree
(default /repo); it is put first on sys.path so that the working tree is what
is exercised ("rebuild" for a pure-Python project = a fresh interpreter).
"""
import os
import sys
import time

REPO = os.environ.get("XV_REPO", "/repo")
VERIF = os.path.dirname(os.path.dirname(os.path.abspath(__file__)))

os.environ["TZ"] = "UTC"
time.tzset()
os.environ.pop("EMAIL", None)
os.environ.pop("XANDIKOS_DUMP_DAV_XML", None)
sys.dont_write_bytecode = True
if sys.path[0] != REPO:
    sys.path.insert(0, REPO)
deps = os.path.join(VERIF, ".deps")
if os.path.isdir(deps) and deps not in sys.path:
    sys.path.append(deps)

import logging  # noqa: E402

logging.disable(logging.CRITICAL)

import warnings  # noqa: E402

warnings.simplefilter("ignore")


def seed() -> int:
    try:
        return int(os.environ.get("VERIF_SEED", "1"))
    except ValueError:
        return 1


def tier(default="quick") -> str:
    t = os.environ.get("VERIF_TIER", default)
    return t if t in ("quick", "thorough") else default


def scratch_root() -> str:
    """Directory for scratch data (outside /repo and /verif)."""
    import tempfile

    return os.environ.get("XV_SCRATCH", tempfile.gettempdir())
