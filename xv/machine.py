"""Request-history interpreter with a reference model and pluggable observers.

A *program* is JSON: {"config": {...}, "steps": [step, ...]}.  `run_program`
executes it against a fresh World and checks, after every step, the oracles
selected by `observers`.  The program itself is the replay file.
"""
from . import env  # noqa: F401

import base64
import collections
import copy
import hashlib
import json
import os
import posixpath
import subprocess
import urllib.parse

from . import dav, findings, icalref
from .world import World

SLOTS = {
    "h1": "/user/calendars",
    "h2": "/user/contacts",
    "c1": "/user/calendars/c1",
    "c2": "/user/calendars/c2",
    "a1": "/user/contacts/a1",
    "x1": "/user/x1",
    "b1": "/user/calendars/b1",
    "n1": "/user/calendars/c1/n1",
}

P_DISPLAYNAME = "{DAV:}displayname"
P_ETAG = "{DAV:}getetag"
P_RT = "{DAV:}resourcetype"
P_CTAG = "{DAV:}getctag"
P_CSCTAG = "{http://calendarserver.org/ns/}getctag"
P_SYNC = "{DAV:}sync-token"
P_CALDESC = "{urn:ietf:params:xml:ns:caldav}calendar-description"
P_ABDESC = "{urn:ietf:params:xml:ns:carddav}addressbook-description"
P_COMMENT = "{DAV:}comment"
P_CALCOLOR = "{http://apple.com/ns/ical/}calendar-color"
P_CALORDER = "{http://apple.com/ns/ical/}calendar-order"
P_ABCOLOR = "{http://inf-it.com/ns/ab/}addressbook-color"
P_REFRESH = "{http://calendarserver.org/ns/}refreshrate"
P_SOURCE = "{http://calendarserver.org/ns/}source"

EMPTY_TREE = "4b825dc642cb6eb9a060e54bf8d69288fbee4904"
RT_COLL = "{DAV:}collection"
RT_CAL = "{urn:ietf:params:xml:ns:caldav}calendar"
RT_AB = "{urn:ietf:params:xml:ns:carddav}addressbook"

KIND_RT = {
    "calendar": sorted([RT_COLL, RT_CAL]),
    "addressbook": sorted([RT_COLL, RT_AB]),
    "other": [RT_COLL],
}


class Violation(Exception):
    def __init__(self, oracle, sig, detail):
        super().__init__(f"{oracle}: {sig}: {detail}")
        self.oracle = oracle
        self.sig = sig
        self.detail = detail


class Vacuous(Exception):
    pass


def b64(b):
    return base64.b64encode(b).decode("ascii")


def unb64(s):
    return base64.b64decode(s)


def body_of(step):
    b = step.get("body")
    if b is None:
        return None
    if isinstance(b, dict):
        if "b64" in b:
            return unb64(b["b64"])
        return b["text"].encode("utf-8")
    return b.encode("utf-8")


def enc_body(raw):
    try:
        t = raw.decode("utf-8")
        if "\r" not in t.replace("\r\n", "") and t.encode("utf-8") == raw:
            return {"text": t}
    except UnicodeDecodeError:
        pass
    return {"b64": b64(raw)}


class MMember:
    __slots__ = ("raw", "ctype", "ver")

    def __init__(self, raw, ctype, ver):
        self.raw = raw
        self.ctype = ctype
        self.ver = ver

    def is_ical(self, name):
        return self.ctype.split(";")[0].strip().lower() == "text/calendar" or name.endswith(".ics")

    def key(self):
        return (hashlib.sha1(self.raw).hexdigest(), self.ctype)


class MColl:
    def __init__(self, path, kind, bare=False, meta="file"):
        self.path = path
        self.kind = kind
        self.members = {}
        self.props = {}
        self.bare = bare
        self.meta = meta
        self.epoch = 0  # bumped on every acknowledged property change

    def content_key(self):
        return tuple(sorted((n, m.key()[0]) for n, m in self.members.items()))


class Model:
    def __init__(self):
        self.colls = {}

    def children(self, path):
        return sorted(p for p in self.colls if posixpath.dirname(p) == path)

    def remove_tree(self, path):
        for p in list(self.colls):
            if p == path or p.startswith(path + "/"):
                del self.colls[p]


def same_body(expected_raw, got, name, member):
    if expected_raw == got:
        return True
    if member.is_ical(name):
        return icalref.same_calendar(expected_raw, got)
    return False


def name_from_href(href):
    p = dav.href_path(href) or ""
    return p.rstrip("/").rsplit("/", 1)[-1]


def draw_suffix(i):
    return [";1", ";type=a", ";", ",x", "=1"][i % 5]


def parse_etag_list(value, weak_ok=False):
    """-> (wellformed, star, [strong etags]).  Strong comparison (RFC 7232 2.3.2): with weak_ok a weak
    validator W/"x" is a well-formed list member that matches nothing (If-Match, RFC 7232 3.1)."""
    items = [x.strip(" \t") for x in value.split(",")]
    star = False
    tags = []
    well = True
    for it in items:
        if it == "*":
            star = True
        elif len(it) >= 2 and it[0] == '"' and it[-1] == '"' and '"' not in it[1:-1]:
            tags.append(it)
        elif weak_ok and len(it) >= 4 and it[:3] == 'W/"' and it[-1] == '"' and '"' not in it[3:-1]:
            pass
        else:
            well = False
    if star and len(items) > 1:
        well = False
    if not items or items == [""]:
        well = False
    return well, star, tags


def cond_truth(hdrs, exists, cur_etag):
    """Evaluate If-Match / If-None-Match.  Returns (passes, decided):
    decided=False when a header value is malformed/weak (either outcome allowed)."""
    passes = True
    decided = True
    for k, v in hdrs:
        kl = k.lower()
        if kl not in ("if-match", "if-none-match"):
            continue
        well, star, tags = parse_etag_list(v, weak_ok=(kl == "if-match"))
        if not well:
            decided = False
        matches = exists and (star or (cur_etag in tags))
        if kl == "if-match":
            if not matches:
                passes = False
        else:
            if matches:
                passes = False
    return passes, decided


def uid_of_member(name, raw, ctype="text/calendar"):
    if not (name.endswith(".ics") or ctype.split(";")[0].strip().lower() == "text/calendar"):
        return None
    try:
        return icalref.calendar_uid(raw)
    except icalref.ParseError:
        return None


class Runner:
    def __init__(self, program, observers=()):
        self.program = program
        self.cfg = program.get("config", {})
        self.obs = set(observers)
        self.stats = collections.Counter()
        self.model = Model()
        self.world = None
        self.step_no = -1
        self.etag_hist = collections.defaultdict(list)  # resource path -> [etag,...]
        self.cur_etag = {}  # (coll, name) -> etag observed at last audit
        self.seen_etag_body = collections.defaultdict(dict)  # path -> {etag: sha}
        self.seen_body_etag = collections.defaultdict(dict)  # path -> {sha: etag}
        self.notes = []
        self.known = collections.Counter()
        self.tag_hist = collections.defaultdict(list)  # coll -> [(content_key, epoch, writes, tag)]
        self.coll_writes = collections.Counter()  # coll -> number of acknowledged changes
        self.git_heads = {}
        self.sync_tokens = collections.defaultdict(list)  # coll -> [(token, snapshot)]
        self.hooks = []

    # -- plumbing ----------------------------------------------------------
    def violation(self, oracle, sig, detail):
        raise Violation(oracle, sig, f"step {self.step_no}: {detail}")

    def req(self, fe, method, path, headers=None, body=None, raw_target=None):
        self.stats["requests"] += 1
        return self.world.request(fe, method, path, headers, body, raw_target=raw_target)

    def member_path(self, coll, name):
        return coll + "/" + dav.quote_name(name)

    # -- lifecycle ---------------------------------------------------------
    def run(self):
        cfg = self.cfg
        self.world = World(prefix=cfg.get("prefix", "/"), index_threshold=cfg.get("index_threshold"))
        try:
            for p in ("/user/calendars", "/user/contacts"):
                self.model.colls[p] = MColl(p, "other")
            for seed_spec in cfg.get("seed", []):
                self.seed_collection(seed_spec)
            self.audit(set(self.model.colls), full=True, fe="wsgi")
            self.last = {}
            self.last_touched = set(self.model.colls)
            if "git" in self.obs:
                self.obs_git(None)
            for i, step in enumerate(self.program["steps"]):
                self.step_no = i
                self.do_step(step)
            self.step_no = len(self.program["steps"])
            self.final()
        finally:
            self.world.close()

    def seed_collection(self, spec):
        """Pre-existing data: a collection that the server did not create."""
        import dulwich.repo
        from xandikos.store.git import BareGitStore, TreeGitStore

        path = SLOTS[spec["slot"]]
        fs = self.world.fs_path(path)
        os.makedirs(os.path.dirname(fs), exist_ok=True)
        if spec.get("bare"):
            os.mkdir(fs)
            repo = dulwich.repo.Repo.init_bare(fs)
        else:
            os.mkdir(fs)
            repo = dulwich.repo.Repo.init(fs)
        kind = spec.get("kind", "calendar")
        if spec.get("meta") == "config":
            c = repo.get_config()
            c.set(b"xandikos", b"type", kind.encode())
            c.write_to_path()
        else:
            store = (BareGitStore if spec.get("bare") else TreeGitStore)(repo)
            store.set_type(kind)
        repo.close()
        self.model.colls[path] = MColl(path, kind, bare=bool(spec.get("bare")), meta=spec.get("meta", "file"))

    # -- conditional headers -----------------------------------------------
    def cond_headers(self, cond, coll, name):
        """cond: list of {"hdr":..., "items":[...], "sep":...} -> header list + resolved text."""
        out = []
        for c in cond or []:
            vals = []
            for it in c["items"]:
                vals.append(self.resolve_etag_item(it, coll, name))
            out.append((c["hdr"], c.get("sep", ", ").join(vals)))
        return out

    def resolve_etag_item(self, it, coll, name):
        k = it["kind"]
        path = coll + "/" + name if name is not None else coll
        hist = self.etag_hist.get(path, [])
        cur = self.cur_etag.get((coll, name))
        never = '"%s"' % hashlib.sha1(("never" + str(it.get("n", 0))).encode()).hexdigest()
        if k == "star":
            return "*"
        if k == "never":
            return never
        if k == "literal":
            return it["v"]
        if k == "current":
            return cur or never
        if k == "stale":
            olds = [e for e in hist if e != cur]
            return olds[it.get("k", 0) % len(olds)] if olds else never
        if k == "other":
            others = sorted(v for (c, n), v in self.cur_etag.items() if (c, n) != (coll, name) and v)
            return others[it.get("k", 0) % len(others)] if others else never
        if k == "weak-current":
            return "W/" + (cur or never)
        if k == "unquoted-current":
            return (cur or never).strip('"')
        if k == "halfquoted-current":
            return (cur or never)[:-1]
        raise ValueError(k)

    # -- steps ------------------------------------------------------------
    def do_step(self, step):
        op = step["op"]
        self.stats["op:" + op] += 1
        touched = getattr(self, "op_" + op.replace("-", "_"))(step)
        self.last_touched = set(touched or ())
        if self.cfg.get("audit") == "sparse" and op != "AUDIT":
            # sparse mode: the harness does not read anything between the program's own requests, so that
            # state kept by the server between requests (caches) is not refreshed by the audit itself
            self.pending_touched = getattr(self, "pending_touched", set()) | self.last_touched
            self.stats["sparse-steps"] += 1
            return
        if "ctag" in self.obs and op != "AUDIT":
            # the tags are read once before the audit's own requests (listings of every collection and of
            # their parents are reads too: the observer below compares the tags after them with these)
            self.obs_ctag(step)
            self.stats["ctag:pre-audit-reads"] += 1
        self.audit(touched or set(), full=(op in ("RESTART", "AUDIT")), fe=step.get("afe", "wsgi"), step=step)
        for name in ("uid", "etagviews", "ctag", "git", "sync", "props", "hrefs"):
            if name in self.obs:
                getattr(self, "obs_" + name)(step)
        for h in self.hooks:
            h(self, step)

    def _expect_noack_into_missing(self, ack, coll, what):
        if ack and coll not in self.model.colls:
            self.violation("content", "ack-in-missing-collection", f"{what} acknowledged but collection {coll} does not exist in the model")

    def op_PUT(self, st):
        coll = SLOTS[st["coll"]]
        name = st["name"]
        body = body_of(st)
        hdrs = [("Content-Type", st["ctype"])] + self.cond_headers(st.get("cond"), coll, name)
        r = self.req(st["fe"], "PUT", self.member_path(coll, name), hdrs, body)
        ack = dav.acknowledged(r)
        self.last = {"op": "PUT", "ack": ack, "resp": r, "coll": coll, "name": name, "hdrs": hdrs, "body": body, "existed": coll in self.model.colls and name in self.model.colls[coll].members}
        self._expect_noack_into_missing(ack, coll, "PUT")
        self.expect_cond("PUT", st, r, ack, coll, name, hdrs)
        self.expect_uid("PUT", st, r, ack, coll, name, body)
        if r.status >= 500:
            self.stats["5xx"] += 1
            self.note5xx(st, r)
        if ack:
            self.stats["ack:PUT"] += 1
            mc = self.model.colls[coll]
            old = mc.members.get(name)
            if old is not None:
                self.stats["ack:overwrite"] += 1
                if old.raw == body:
                    self.stats["ack:same-bytes-overwrite"] += 1
            mc.members[name] = MMember(body, st["ctype"], (old.ver + 1) if old else 1)
            self.coll_writes[coll] += 1
            et = r.header("ETag")
            self.last["etag"] = et
        else:
            self.stats["noack:PUT"] += 1
            self.stats["noack:write"] += 1
        return {coll}

    def op_POST(self, st):
        coll = SLOTS[st["coll"]]
        body = body_of(st)
        r = self.req(st["fe"], "POST", coll + ("/" if st.get("slash", True) else ""), [("Content-Type", st["ctype"])], body)
        ack = dav.acknowledged(r)
        self.last = {"op": "POST", "ack": ack, "resp": r, "coll": coll, "body": body}
        self._expect_noack_into_missing(ack, coll, "POST")
        self.expect_uid("POST", st, r, ack, coll, None, body)
        if r.status >= 500:
            self.stats["5xx"] += 1
            self.note5xx(st, r)
        if ack:
            self.stats["ack:POST"] += 1
            loc = r.header("Location")
            if not loc:
                self.violation("content", "post-without-location", f"POST acknowledged ({r.status}) without Location")
            name = name_from_href(loc)
            mc = self.model.colls[coll]
            # the acknowledgement names the new member: it must lie in the collection that was addressed
            pre = self.world.prefix.rstrip("/")
            lp = dav.href_path(loc) or ""
            if loc and posixpath.dirname((lp[len(pre):] if pre and lp.startswith(pre + "/") else lp).rstrip("/")) != coll:
                self.violation("content", "post-location-outside-collection", f"POST to {coll}{'/' if st.get('slash', True) else ''} acknowledged ({r.status}) with Location {loc!r}, which is not a member of {coll}")
            if not st.get("slash", True):
                self.stats["post:slashless"] += 1
            if name in mc.members:
                self.violation("content", "post-reused-name", f"POST created {name!r} which already existed")
            mc.members[name] = MMember(body, st["ctype"], 1)
            self.coll_writes[coll] += 1
            self.last["name"] = name
            self.last["location"] = loc
            self.posted = getattr(self, "posted", collections.defaultdict(list))
            self.posted[coll].append(name)
        else:
            self.stats["noack:write"] += 1
        return {coll}

    def op_DELETE(self, st):
        coll = SLOTS[st["coll"]]
        name = st.get("name")
        if name is not None:
            path = self.member_path(coll, name)
        else:
            path = coll + ("/" if st.get("slash") else "")
        hdrs = self.cond_headers(st.get("cond"), coll, name)
        r = self.req(st["fe"], "DELETE", path, hdrs, None)
        ack = dav.acknowledged(r)
        self.last = {"op": "DELETE", "ack": ack, "resp": r, "coll": coll, "name": name, "hdrs": hdrs}
        if name is not None:
            self.expect_cond("DELETE", st, r, ack, coll, name, hdrs)
        elif "cond" in self.obs and hdrs and self.cfg.get("audit") != "sparse":
            # If-Match on the DELETE of a collection refers to the collection's own ETag
            chdrs = [(k, v) for k, v in hdrs if k.lower() == "if-match"]
            exists = coll in self.model.colls
            cur = self.cur_etag.get((coll, None)) if exists else None
            if chdrs and (cur is not None or not exists):
                passes, decided = cond_truth(chdrs, exists, cur)
                self.stats[f"cond:DELETE-coll:{'decided' if decided else 'malformed'}:{'pass' if passes else 'fail'}"] += 1
                desc = f"DELETE {coll} (collection) via {st.get('fe')} with {chdrs} (collection {'exists, ETag ' + str(cur) if exists else 'absent'})"
                if decided and not passes and not (not exists and r.status == 404):
                    if ack or r.status != 412:
                        self.violation("cond", "delete-collection-precondition-false-not-412", f"{desc}: precondition is false but the answer was {r.status}")
                    self.cond_nontrivial = getattr(self, "cond_nontrivial", set())
                    self.cond_nontrivial.add(("DELETE-coll", "if-match", st.get("fe"), passes))
                if decided and passes and r.status == 412:
                    self.violation("cond", "delete-collection-precondition-true-412", f"{desc}: precondition holds but the answer was 412")
        if r.status >= 500:
            self.stats["5xx"] += 1
            self.note5xx(st, r)
        if ack:
            if name is not None:
                mc = self.model.colls.get(coll)
                if mc is None or name not in mc.members:
                    self.violation("content", "delete-ack-missing", f"DELETE of missing {coll}/{name} acknowledged with {r.status}")
                del mc.members[name]
                self.coll_writes[coll] += 1
                self.stats["ack:DELETE"] += 1
            else:
                if coll not in self.model.colls:
                    self.violation("content", "delete-ack-missing", f"DELETE of missing collection {coll} acknowledged with {r.status}")
                self.model.remove_tree(coll)
                self.stats["ack:DELETE-coll"] += 1
                parent = posixpath.dirname(coll)
                self.coll_writes[parent] += 0
        else:
            self.stats["noack:write"] += 1
        return {coll, posixpath.dirname(coll)}

    def op_MKCOL(self, st):
        """kind: plain | ext-calendar | ext-addressbook | ext-plain | mkcalendar; props: [(clark, text)]"""
        coll = SLOTS[st["coll"]]
        kind = st["kind"]
        props = [tuple(p) for p in st.get("props", [])]
        hdrs = []
        body = None
        method = "MKCOL"
        if kind == "plain":
            pass
        elif kind == "mkcalendar":
            method = "MKCALENDAR"
            if props or st.get("xml"):
                body = dav.mkcol_body("C:mkcalendar", props)
                hdrs = [dav.XML_CT]
        else:
            rt = {"ext-calendar": "<D:collection/><C:calendar/>", "ext-addressbook": "<D:collection/><A:addressbook/>", "ext-plain": "<D:collection/>"}[kind]
            allp = list(props)
            allp.insert(min(int(st.get("rt_pos", 0)), len(allp)), (P_RT, ("xml", rt)))  # clients list resourcetype anywhere
            body = dav.mkcol_body("D:mkcol", allp, one_prop=bool(st.get("one_prop")))
            hdrs = [dav.XML_CT]
        r = self.req(st["fe"], method, coll + ("/" if st.get("slash") else ""), hdrs, body)
        ack = r.status in (200, 201)
        self.last = {"op": "MKCOL", "ack": ack, "resp": r, "coll": coll}
        if r.status >= 500:
            self.stats["5xx"] += 1
            self.note5xx(st, r)
        parent = posixpath.dirname(coll)
        if ack:
            if coll in self.model.colls:
                self.violation("content", "mkcol-ack-existing", f"{method} on existing {coll} acknowledged")
            if parent not in self.model.colls and parent != "/user":
                self.violation("content", "mkcol-ack-orphan", f"{method} {coll} acknowledged but parent is missing")
            mkind = {"plain": "other", "ext-plain": "other", "ext-calendar": "calendar", "ext-addressbook": "addressbook", "mkcalendar": "calendar"}[kind]
            mc = MColl(coll, mkind)
            self.model.colls[coll] = mc
            self.stats["ack:MKCOL"] += 1
            # per-property status of extended MKCOL / MKCALENDAR
            if body is not None and r.body:
                try:
                    import xml.etree.ElementTree as ET

                    root = ET.fromstring(r.body)
                    for ps in root.iter("{DAV:}propstat"):
                        code = dav._status_code(ps.find("{DAV:}status").text)
                        for p in ps.find("{DAV:}prop"):
                            if code == 200 and p.tag != P_RT:
                                for k, v in props:
                                    if k == p.tag:
                                        mc.props[k] = v
                                        mc.epoch += 1
                                        self.stats["ack:propset"] += 1
                            elif code == 200 and p.tag == P_RT:
                                pass
                            elif p.tag == P_RT and code != 200:
                                mc.kind = "other"
                except Exception as e:  # unparseable answer: leave props unset
                    self.notes.append(f"unparseable mkcol response: {e}")
        else:
            self.stats["noack:write"] += 1
        return {coll, parent}

    def op_PROPPATCH(self, st):
        coll = SLOTS[st["coll"]]
        sets = [tuple(p) for p in st.get("set", [])]
        removes = list(st.get("remove", []))
        instr = [tuple(i) for i in st.get("instr", [])]
        mc0 = self.model.colls.get(coll)
        if any(it[0] == "set" and it[1] == P_RT for it in instr):
            # DAV:resourcetype set to the type the collection already has
            rtx = {"calendar": "<D:collection/><C:calendar/>", "addressbook": "<D:collection/><A:addressbook/>"}.get(mc0.kind if mc0 else "other", "<D:collection/>")
            instr = [("set", P_RT, ("xml", rtx)) if (it[0] == "set" and it[1] == P_RT) else it for it in instr]
        if instr:
            # instructions in document order (RFC 4918 9.2): the model applies them in that order
            body = dav.proppatch_body_ordered(instr, grouped=bool(st.get("grouped")))
        else:
            body = dav.proppatch_body(sets, removes)
            instr = [("set", k, v) for k, v in sets] + [("remove", k) for k in removes]
        r = self.req(st["fe"], "PROPPATCH", coll + "/", [dav.XML_CT], body)
        self.last = {"op": "PROPPATCH", "resp": r, "coll": coll, "ack": False, "acked": []}
        if r.status >= 500:
            self.stats["5xx"] += 1
            self.note5xx(st, r)
        ms = dav.parse_ms(r)
        mc = self.model.colls.get(coll)
        if ms is not None and ms.responses:
            resp = ms.responses[0]
            self.last["removed"] = []
            for it in instr:
                k = it[1]
                if resp.prop_status(k) != 200:
                    continue
                if mc is None:
                    self.violation("content", "proppatch-ack-missing", f"PROPPATCH on missing {coll} acknowledged")
                if it[0] == "set" and k == P_RT:
                    self.stats["ack:retype-same"] += 1  # same type as before: nothing changes in the model
                elif it[0] == "set":
                    mc.props[k] = it[2]
                    self.stats["ack:propset"] += 1
                else:
                    mc.props.pop(k, None)
                    self.last["removed"].append(k)
                    self.stats["ack:propremove"] += 1
                mc.epoch += 1
                self.coll_writes[coll] += 1
                self.last["acked"].append(k)
            self.last["ack"] = bool(self.last["acked"])
            if mc is not None:
                self.removed_props = getattr(self, "removed_props", {})
                for k in self.last["removed"]:
                    if k not in mc.props:
                        self.removed_props[(coll, k)] = True
                for k in self.last["acked"]:
                    if k in mc.props:
                        self.removed_props.pop((coll, k), None)
        if not self.last["ack"]:
            self.stats["noack:write"] += 1
        return {coll}

    def op_GET(self, st):
        coll = SLOTS[st["coll"]]
        name = st.get("name")
        path = self.member_path(coll, name) if name is not None else coll + "/"
        hdrs = self.cond_headers(st.get("cond"), coll, name)
        r = self.req(st["fe"], st.get("method", "GET"), path, hdrs, None)
        self.last = {"op": st.get("method", "GET"), "resp": r, "coll": coll, "name": name, "hdrs": hdrs, "ack": False}
        if name is not None:
            self.expect_cond(st.get("method", "GET"), st, r, False, coll, name, hdrs)
        if r.status >= 500:
            self.stats["5xx"] += 1
            self.note5xx(st, r)
        return set()

    def op_READ(self, st):
        """A read-only request on any URL (collections, their parents, the principal, the root): nothing may
        change.  kind: propfind | get | head | options | calendar-query | sync | multiget-empty"""
        path = st["path"]
        kind = st["kind"]
        hdrs, body, method = [], None, "GET"
        if kind == "propfind":
            method = "PROPFIND"
            props = [P_ETAG, P_RT, P_DISPLAYNAME, P_SYNC, P_CTAG, "{DAV:}supported-report-set", "{DAV:}getcontenttype", "{DAV:}current-user-principal", "{urn:ietf:params:xml:ns:caldav}supported-calendar-component-set", "{DAV:}owner", P_CALCOLOR, P_CALORDER, P_CALDESC, P_ABDESC, P_ABCOLOR, P_COMMENT, "{DAV:}add-member", "{urn:ietf:params:xml:ns:caldav}calendar-home-set", "{DAV:}principal-URL"]
            body = dav.propfind_body(allprop=True) if st.get("allprop") else dav.propfind_body(props)
            hdrs = [("Depth", str(st.get("depth", 0))), dav.XML_CT]
        elif kind in ("get", "head", "options"):
            method = kind.upper()
        elif kind == "calendar-query":
            method, body, hdrs = "REPORT", dav.calquery_body(dav.MATCH_ALL_CAL), [("Depth", "1"), dav.XML_CT]
        elif kind == "sync":
            method, body, hdrs = "REPORT", dav.sync_body(""), [dav.XML_CT]
        else:
            method, body, hdrs = "REPORT", dav.multiget_body("calendar", []), [dav.XML_CT]
        r = self.req(st["fe"], method, path, hdrs, body)
        self.last = {"op": "READ", "resp": r, "coll": None, "ack": False}
        self.stats["read:" + kind] += 1
        if r.status >= 500:
            self.stats["5xx"] += 1
            self.note5xx(st, r)
        return set()

    def op_PROPFIND(self, st):
        coll = SLOTS[st["coll"]]
        name = st.get("name")
        path = self.member_path(coll, name) if name is not None else coll + ("/" if st.get("slash", True) else "")
        body = dav.propfind_body(allprop=True) if st.get("allprop") else dav.propfind_body([P_ETAG, P_RT, P_DISPLAYNAME, P_SYNC, P_CTAG])
        r = self.req(st["fe"], "PROPFIND", path, [("Depth", str(st.get("depth", 0))), dav.XML_CT], body)
        self.last = {"op": "PROPFIND", "resp": r, "coll": coll, "ack": False}
        if r.status >= 500:
            self.stats["5xx"] += 1
            self.note5xx(st, r)
        return set()

    def op_REPORT(self, st):
        coll = SLOTS[st["coll"]]
        kind = st["kind"]
        mc = self.model.colls.get(coll)
        if kind == "multiget":
            names = st.get("names", [])
            hrefs = [self.world.url(self.member_path(coll, n)) for n in names]
            body = dav.multiget_body("addressbook" if (mc and mc.kind == "addressbook") else "calendar", hrefs)
        elif kind == "calendar-query":
            body = dav.calquery_body(st.get("filter", dav.MATCH_ALL_CAL))
        elif kind == "addressbook-query":
            body = dav.abquery_body(st.get("filter"))
        elif kind == "sync":
            if "sync" in self.obs:
                self.last = {"op": "REPORT", "coll": coll, "ack": False}
                self.sync_report(st)
                return set()
            body = dav.sync_body(st.get("token", ""))
        else:
            raise ValueError(kind)
        r = self.req(st["fe"], "REPORT", coll + "/", [("Depth", "1"), dav.XML_CT], body)
        self.last = {"op": "REPORT", "resp": r, "coll": coll, "ack": False}
        if r.status >= 500:
            self.stats["5xx"] += 1
            self.note5xx(st, r)
        return set()

    def op_LOCKED(self, st):
        """The inner write request arrives while somebody else (another worker, an external git command,
        a crashed writer) holds the repository's lock file.  Whatever the answer, the usual oracles apply:
        a refusal must leave everything - including the working tree - as it was."""
        inner = st["inner"]
        coll = SLOTS[inner["coll"]]
        mc = self.model.colls.get(coll)
        locks = []
        if mc is not None:
            fs = self.world.fs_path(coll)
            if mc.bare:
                try:
                    with open(os.path.join(fs, "HEAD")) as f:
                        ref = f.read().strip().split("ref: ", 1)[-1]
                    locks.append(os.path.join(fs, ref + ".lock"))
                except OSError:
                    pass
            elif st.get("lock", "index") == "ref":
                # the index can be locked and written, the commit cannot be made
                try:
                    with open(os.path.join(fs, ".git", "HEAD")) as f:
                        ref = f.read().strip().split("ref: ", 1)[-1]
                    locks.append(os.path.join(fs, ".git", ref + ".lock"))
                except OSError:
                    pass
            else:
                locks.append(os.path.join(fs, ".git", "index.lock"))
        made = []
        for lk in locks:
            try:
                os.makedirs(os.path.dirname(lk), exist_ok=True)
                fd = os.open(lk, os.O_CREAT | os.O_EXCL | os.O_WRONLY)
                os.close(fd)
                made.append(lk)
            except OSError:
                pass
        try:
            touched = getattr(self, "op_" + inner["op"])(inner)
        finally:
            for lk in made:
                try:
                    os.unlink(lk)
                except OSError:
                    pass
        self.stats["locked-requests"] += 1
        self.stats["locked-requests:" + ("bare" if (mc is not None and mc.bare) else st.get("lock", "index"))] += 1
        if not self.last.get("ack"):
            self.stats["locked-requests-refused"] += 1
        return touched

    def op_SYNCRACE(self, st):
        """A member is written while a sync-collection report is being produced (after the store has handed
        out its change list).  Whatever the report lists, the token it returns must be good for the rest: a
        second report from that token, sent at once, has to list the member that was written."""
        from xandikos import web

        coll = SLOTS[st["coll"]]
        name = st["name"]
        mc = self.model.colls.get(coll)
        self.last = {"op": "SYNCRACE", "ack": False, "coll": coll, "name": name}
        if mc is None or mc.kind not in ("calendar", "addressbook") or "sync" not in self.obs or self.cfg.get("audit") == "sparse":
            return set()
        body = body_of(st)
        before = mc.members.get(name)
        if before is not None and same_body(before.raw, body, name, before):
            return set()
        tok = self.read_sync_token(coll)
        store = web.open_store_from_path(self.world.fs_path(coll), double_check_indexes=False, index_threshold=self.cfg.get("index_threshold"))
        orig = store.iter_changes
        state = {"done": False, "exc": None}

        def wrapped(old, new):
            yield from orig(old, new)
            if not state["done"]:
                state["done"] = True
                try:
                    store.import_one(name, st["ctype"], [body])
                except Exception as e:
                    state["exc"] = repr(e)

        store.iter_changes = wrapped
        try:
            r = self.req(st["fe"], "REPORT", coll + "/", [("Depth", "1"), dav.XML_CT], dav.sync_body(tok))
        finally:
            try:
                del store.iter_changes
            except AttributeError:
                pass
        if not state["done"] or state["exc"]:
            self.stats["syncrace:not-armed"] += 1
            if state["done"] and state["exc"]:
                return {coll}
            return set()
        mc.members[name] = MMember(body, st["ctype"], (before.ver + 1) if before else 1)
        self.coll_writes[coll] += 1
        self.stats["syncrace"] += 1
        ms = dav.parse_ms(r)
        if ms is None or not ms.has_sync_token:
            self.violation("sync", "report-failed", f"sync-collection on {coll} during which {name} was written answered {r.status} {r.exc or r.body[:200]!r}")
        first = {name_from_href(x.href) for x in ms.responses if x.status != 404}
        r2 = self.req(st["fe"], "REPORT", coll + "/", [("Depth", "1"), dav.XML_CT], dav.sync_body(ms.sync_token))
        ms2 = dav.parse_ms(r2)
        if ms2 is None:
            self.violation("sync", "report-failed", f"sync-collection on {coll} from the token {ms.sync_token!r} just returned answered {r2.status} {r2.exc or r2.body[:200]!r}")
        second = {name_from_href(x.href) for x in ms2.responses if x.status != 404}
        if name not in first and name not in second:
            self.violation("sync", "write-during-report-never-reported", f"{coll}: {name} was written while a sync-collection report (from token {tok!r}) was being produced; that report lists {sorted(first)} and returns token {ms.sync_token!r}, the next report from this token lists {sorted(second)}: the write is in neither")
        self.sync_nontrivial = getattr(self, "sync_nontrivial", set())
        self.sync_nontrivial.add(("syncrace", st["fe"], bool(before)))
        return {coll}

    def op_CONDRACE(self, st):
        """A conditional PUT / DELETE (If-Match: current ETag) during which another writer changes the resource
        right after the front end has compared the header with the ETag it looked up: the request must not be
        executed (412) and the other writer's content must survive - the ETag travels with the write."""
        from xandikos import web, webdav

        coll = SLOTS[st["coll"]]
        name = st["name"]
        mc = self.model.colls.get(coll)
        self.last = {"op": "CONDRACE", "ack": False, "coll": coll, "name": name}
        if mc is None or name not in mc.members or not self.cur_etag.get((coll, name)) or self.cfg.get("audit") == "sparse":
            return set()
        cur = self.cur_etag[(coll, name)]
        other = body_of({"body": st["other"]})
        mine = body_of(st)
        real = webdav.etag_matches
        state = {"done": False, "exc": None}
        runner = self

        def wrapper(condition, actual):
            res = real(condition, actual)
            if not state["done"] and res:
                state["done"] = True
                try:
                    store = web.open_store_from_path(runner.world.fs_path(coll), double_check_indexes=False, index_threshold=runner.cfg.get("index_threshold"))
                    ret = store.import_one(name, st["ctype"], [other])
                    if ret[1] == cur.strip('"'):
                        state["exc"] = "the competing write stored the bytes that were already there (same ETag)"
                except Exception as e:  # the competing write itself failed: the step proves nothing
                    state["exc"] = repr(e)
            return res

        webdav.etag_matches = wrapper
        try:
            if st.get("method", "PUT") == "PUT":
                r = self.req(st["fe"], "PUT", self.member_path(coll, name), [("Content-Type", st["ctype"]), ("If-Match", cur)], mine)
            else:
                r = self.req(st["fe"], "DELETE", self.member_path(coll, name), [("If-Match", cur)], None)
        finally:
            webdav.etag_matches = real
        if not state["done"] or state["exc"]:
            # the other writer did not get in (or failed): an ordinary conditional request, modelled as such
            self.stats["condrace:not-armed"] += 1
            if dav.acknowledged(r):
                if st.get("method", "PUT") == "PUT":
                    mc.members[name] = MMember(mine, st["ctype"], mc.members[name].ver + 1)
                else:
                    del mc.members[name]
                self.coll_writes[coll] += 1
                self.last["ack"] = True
            return {coll}
        self.stats["condrace:" + st.get("method", "PUT")] += 1
        mc.members[name] = MMember(other, st["ctype"], mc.members[name].ver + 1)
        self.coll_writes[coll] += 1
        if dav.acknowledged(r) or r.status not in (412, 207):
            self.violation("cond", "stale-if-match-executed-after-concurrent-change", f"{st.get('method', 'PUT')} {coll}/{name} with If-Match {cur}: another writer replaced the resource after the header had been compared; the answer was {r.status} (expected 412, nothing executed)")
        self.cond_nontrivial = getattr(self, "cond_nontrivial", set())
        self.cond_nontrivial.add(("CONDRACE", st.get("method", "PUT"), st.get("fe"), False))
        return {coll}

    def op_AUDIT(self, st):
        self.last = {"op": "AUDIT", "ack": False}
        return set(self.model.colls)

    def refresh_etags(self, coll, fe="wsgi"):
        """Member ETags by HEAD (does not list the collection); used by probes in sparse-audit mode."""
        mc = self.model.colls.get(coll)
        if mc is None:
            return
        for n in mc.members:
            r = self.req(fe, "HEAD", self.member_path(coll, n), None, None)
            if r.status == 200 and r.header("ETag"):
                self.cur_etag[(coll, n)] = r.header("ETag")

    def op_RESTART(self, st):
        self.world.restart()
        self.stats["restarts"] += 1
        self.last = {"op": "RESTART", "ack": False}
        return set(self.model.colls)

    def op_REMOUNT(self, st):
        """The same application object is reached under another route prefix (a WSGI application mounted at
        two places gets its SCRIPT_NAME per request; the aiohttp handler takes the prefix per call)."""
        if self.world.aio is not None:
            self.world.aio.stop()
            self.world.aio = None
        p = st["prefix"]
        self.world.prefix = p if p.endswith("/") else p + "/"
        self.stats["remounts"] += 1
        self.last = {"op": "REMOUNT", "ack": False}
        return set()

    def note5xx(self, st, r):
        key = f"{st['op']}:{(r.exc or '')[:100] or r.body[:80]!r}"
        self.stats["5xx:" + key] += 1


    # -- C03: conditional requests -------------------------------------------
    def expect_cond(self, method, st, r, ack, coll, name, hdrs):
        if "cond" not in self.obs:
            return
        # the property speaks about If-Match on PUT/DELETE, If-None-Match on PUT and on GET/HEAD
        relevant = {"PUT": ("if-match", "if-none-match"), "DELETE": ("if-match",)}.get(method, ("if-none-match",))
        chdrs = [(k, v) for k, v in hdrs if k.lower() in relevant]
        if not chdrs:
            return
        mc = self.model.colls.get(coll)
        exists = mc is not None and name in mc.members
        cur = self.cur_etag.get((coll, name)) if exists else None
        passes, decided = cond_truth(chdrs, exists, cur)
        kinds = "+".join(sorted({k.lower() for k, _ in chdrs}))
        self.stats[f"cond:{method}:{kinds}:{'decided' if decided else 'malformed'}:{'pass' if passes else 'fail'}"] += 1
        stale = any(it["kind"] in ("stale",) for c in st.get("cond") or [] for it in c["items"]) or (not exists and any(it["kind"] == "star" for c in st.get("cond") or [] for it in c["items"]))
        if stale and decided:
            self.stats["cond:nontrivial"] += 1
            self.cond_nontrivial = getattr(self, "cond_nontrivial", set())
            self.cond_nontrivial.add((method, kinds, st.get("fe"), passes))
        desc = f"{method} {coll}/{name} via {st.get('fe')} with {chdrs} (resource {'exists, ETag ' + str(cur) if exists else 'absent'})"
        if method in ("PUT", "DELETE"):
            if not decided:
                # either "not matching" or 400 is allowed for a malformed value.  What the statement still
                # rules out: an If-Match request is "executed only if the resource currently exists with one of
                # the listed ETags (or '*')".  A malformed If-Match that names the current ETag under *no*
                # reading (quotes / weak prefix stripped from every item) and carries no '*' lists nothing
                # that matches - an empty value lists nothing at all - so it must not be executed.
                im = [v for k, v in chdrs if k.lower() == "if-match"]
                if im and ack:
                    core = lambda x: x.strip(" \t").removeprefix("W/").strip('"')
                    items = [x for v in im for x in v.split(",")]
                    loose = exists and any(x.strip(" \t") == "*" or (cur is not None and core(x) != "" and core(x) == core(cur)) for x in items)
                    self.stats["cond:malformed-if-match-executed-checked"] += 1
                    if not loose:
                        self.violation("cond", f"{method.lower()}-malformed-if-match-executed", f"{desc}: If-Match lists nothing that could denote the current ETag, but the request was executed ({r.status})")
                return  # "no-ack => no change" is checked by the audit
            if not passes:
                if method == "DELETE" and not exists and r.status == 404:
                    return
                if ack or r.status != 412:
                    self.violation("cond", f"{method.lower()}-precondition-false-not-412", f"{desc}: precondition is false but the answer was {r.status}")
            else:
                if r.status == 412:
                    self.violation("cond", f"{method.lower()}-precondition-true-412", f"{desc}: precondition holds but the answer was 412")
        else:
            if not exists:
                return
            if not decided:
                return
            has_inm = any(k.lower() == "if-none-match" for k, _ in chdrs)
            if has_inm and not passes:
                if r.status != 304 or r.body:
                    self.violation("cond", "get-inm-match-not-304", f"{desc}: expected 304 without body, got {r.status} with {len(r.body)} body bytes")
            elif has_inm and passes:
                if r.status == 304:
                    self.violation("cond", "get-inm-nomatch-304", f"{desc}: If-None-Match does not match but the answer was 304")

    # -- C06: UID uniqueness -------------------------------------------------------
    def expect_uid(self, method, st, r, ack, coll, name, body):
        if "uid" not in self.obs:
            return
        mc = self.model.colls.get(coll)
        if mc is None:
            return
        ctype = st["ctype"]
        if name is not None and name in mc.members:
            # overwrite: the resource keeps its content type (extension decides)
            is_cal = name.endswith(".ics")
        else:
            is_cal = ctype.split(";")[0].strip().lower() == "text/calendar"
        if not is_cal:
            return
        try:
            uid = icalref.calendar_uid(body)
        except icalref.ParseError:
            return
        holders = [n for n, m in mc.members.items() if n != name and uid is not None and uid_of_member(n, m.raw, m.ctype) == uid]
        refused_uid = b"no-uid-conflict" in r.body
        if holders:
            self.stats["uid:real-conflict"] += 1
            if ack or not refused_uid:
                # a failing If-Match/If-None-Match precondition may legitimately come first
                if not ack and r.status == 412:
                    return
                self.violation("uid", "conflict-not-refused", f"{method} {coll}/{name} with UID {uid!r} held by {holders}: answered {r.status} (acknowledged={ack})")
        else:
            self.stats["uid:no-conflict"] += 1
            if refused_uid:
                self.violation("uid", "refused-without-conflict", f"{method} {coll}/{name} with UID {uid!r}: refused as no-uid-conflict although no other member of {coll} holds that UID (members: { {n: uid_of_member(n, m.raw, m.ctype) for n, m in mc.members.items()} })")
            was_held = getattr(self, "uid_history", {}).get((coll, uid))
            if was_held and uid is not None and not refused_uid and ack and was_held != name:
                self.stats["uid:reuse-after-release"] += 1

    def obs_uid(self, step):
        """Invariant: UIDs of the calendar objects of one collection are pairwise distinct."""
        self.uid_history = getattr(self, "uid_history", {})
        for coll, mc in self.model.colls.items():
            seen = {}
            for n, m in mc.members.items():
                u = uid_of_member(n, m.raw, m.ctype)
                if u is None:
                    continue
                if u in seen:
                    self.violation("uid", "duplicate-uid", f"{coll}: members {seen[u]!r} and {n!r} both carry UID {u!r}")
                seen[u] = n
                self.uid_history[(coll, u)] = n

    # -- C02: ETag views ---------------------------------------------------------------
    def obs_etagviews(self, step):
        fe = step.get("afe", "wsgi") if step else "wsgi"
        touched = self.last_touched
        last = self.last
        for coll in sorted(touched):
            mc = self.model.colls.get(coll)
            if mc is None or not mc.members:
                continue
            names = sorted(mc.members)
            views = collections.defaultdict(dict)  # name -> view -> etag
            get_bodies = {}
            for n in names:
                views[n]["propfind"] = self.cur_etag.get((coll, n))
                r = self.req(fe, "GET", self.member_path(coll, n), None, None)
                views[n]["get"] = r.header("ETag")
                get_bodies[n] = r.body
                r = self.req(fe, "HEAD", self.member_path(coll, n), None, None)
                views[n]["head"] = r.header("ETag")
            if last.get("ack") and last.get("op") == "PUT" and last.get("coll") == coll and last.get("name") in mc.members:
                views[last["name"]]["put"] = last.get("etag")
            # sync-collection from the empty token
            r = self.req(fe, "REPORT", coll + "/", [("Depth", "1"), dav.XML_CT], dav.sync_body(""))
            ms = dav.parse_ms(r)
            if ms is not None and not ms.has_error():
                for resp in ms.responses:
                    n = name_from_href(resp.href)
                    if n in mc.members:
                        views[n]["sync"] = resp.prop_text(P_ETAG)
            if mc.kind in ("calendar", "addressbook"):
                kind = mc.kind
                sel = [n for n in names if n.endswith(".ics" if kind == "calendar" else ".vcf")]
                if sel:
                    hrefs = [self.world.url(self.member_path(coll, n)) for n in sel]
                    if self.step_no % 2:
                        hrefs = hrefs[:1] + hrefs  # clients do repeat hrefs; the views must agree all the same
                    # ... and ask for members of other collections of the same kind in the same request
                    ext = ".ics" if kind == "calendar" else ".vcf"
                    extra = [(oc, n2) for oc, om in sorted(self.model.colls.items()) if oc != coll and om.kind == kind for n2 in sorted(om.members) if n2.endswith(ext) and self.cur_etag.get((oc, n2))][:2]
                    xh = [self.world.url(self.member_path(oc, n2)) for oc, n2 in extra]
                    hrefs = (xh + hrefs) if self.step_no % 3 == 0 else (hrefs + xh)
                    r = self.req(fe, "REPORT", coll + "/", [("Depth", "1"), dav.XML_CT], dav.multiget_body(kind, hrefs, data=True))
                    ms = dav.parse_ms(r)
                    if ms is not None:
                        pre = self.world.prefix.rstrip("/")
                        dprop = "{urn:ietf:params:xml:ns:caldav}calendar-data" if kind == "calendar" else "{urn:ietf:params:xml:ns:carddav}address-data"
                        for resp in ms.responses:
                            # same ETag => same bytes: the data a report serves under an ETag is what GET serves
                            n0 = name_from_href(resp.href)
                            data = resp.prop_text(dprop)
                            rp0 = dav.href_path(resp.href) or ""
                            if n0 in get_bodies and data is not None and posixpath.dirname((rp0[len(pre):] if pre and rp0.startswith(pre) else rp0).rstrip("/")) == coll and resp.prop_text(P_ETAG) == views[n0].get("get"):
                                self.stats["view:multiget-data-compared"] += 1
                                if data.encode("utf-8").replace(b"\r\n", b"\n") != get_bodies[n0].replace(b"\r\n", b"\n"):
                                    self.violation("etag-strong", "report-data-differs-under-same-etag", f"{coll}/{n0}: multiget serves {data[:300]!r} under ETag {resp.prop_text(P_ETAG)}, GET serves {get_bodies[n0][:300]!r} under the same ETag")
                        for resp in ms.responses:
                            rp = dav.href_path(resp.href) or ""
                            rp = rp[len(pre):] if pre and rp.startswith(pre) else rp
                            rc, rn = posixpath.split(rp.rstrip("/"))
                            if rc != coll:
                                if (rc, rn) in extra and resp.prop_text(P_ETAG) is not None:
                                    self.stats["view:multiget-other-collection"] += 1
                                    if resp.prop_text(P_ETAG) != self.cur_etag[(rc, rn)]:
                                        self.violation("etag-views", "multiget-other-collection", f"multiget sent to {coll} answers {rc}/{rn} with ETag {resp.prop_text(P_ETAG)}; PROPFIND on its own collection says {self.cur_etag[(rc, rn)]}")
                                continue
                            n = name_from_href(resp.href)
                            if n in mc.members and resp.prop_text(P_ETAG) is not None:
                                if "multiget" in views[n] and views[n]["multiget"] != resp.prop_text(P_ETAG):
                                    self.violation("etag-views", "multiget-two-etags", f"{coll}/{n}: one multiget answers this href with ETags {views[n]['multiget']} and {resp.prop_text(P_ETAG)}")
                                views[n]["multiget"] = resp.prop_text(P_ETAG)
                    body = dav.calquery_body(dav.MATCH_ALL_CAL, data=False) if kind == "calendar" else dav.abquery_body(None, data=False)
                    r = self.req(fe, "REPORT", coll + "/", [("Depth", "1"), dav.XML_CT], body)
                    ms = dav.parse_ms(r)
                    if ms is not None:
                        for resp in ms.responses:
                            n = name_from_href(resp.href)
                            if n in mc.members and resp.prop_text(P_ETAG) is not None:
                                views[n]["query"] = resp.prop_text(P_ETAG)
            for n, vs in views.items():
                for v in vs:
                    self.stats["view:" + v] += 1
                vals = set(vs.values())
                if len(vals) > 1 or None in vals:
                    self.violation("etag-views", "views-disagree", f"{coll}/{n}: ETag views {dict(vs)}")

    # -- C08: collection tags -------------------------------------------------------
    TAG_PROPS = [P_CTAG, P_CSCTAG, P_SYNC, P_ETAG]

    def read_tags(self, coll, fe):
        r = self.req(fe, "PROPFIND", coll + "/", [("Depth", "0"), dav.XML_CT], dav.propfind_body(self.TAG_PROPS))
        ms = dav.parse_ms(r)
        if ms is None or not ms.responses:
            self.violation("ctag", "propfind-failed", f"PROPFIND of tags on {coll}: {r.status} {r.exc or r.body[:200]!r}")
        resp = ms.responses[0]
        vals = {p: resp.prop_text(p) for p in self.TAG_PROPS}
        return vals

    def obs_ctag(self, step):
        fe = step.get("afe", "wsgi") if step else "wsgi"
        self.incarnation = getattr(self, "incarnation", collections.Counter())
        for coll, mc in self.model.colls.items():
            if getattr(mc, "_inc", None) is None:
                self.incarnation[coll] += 1
                mc._inc = self.incarnation[coll]
            vals = self.read_tags(coll, fe)
            norm = {p: (v.strip('"') if v is not None else None) for p, v in vals.items()}
            if len(set(norm.values())) != 1 or None in norm.values():
                self.violation("ctag", "views-disagree", f"{coll}: tag views {vals}")
            tag = norm[P_CTAG]
            hist = self.tag_hist[(coll, mc._inc)]
            entry = (mc.content_key(), mc.epoch, self.coll_writes[coll], tag, self.step_no)
            # different contents => different tags, also across incarnations of the same URL
            for inc in range(1, mc._inc):
                for ck, ep, wr, t, sn in self.tag_hist.get((coll, inc), ()):
                    if ck != entry[0] and t == tag:
                        self.violation("ctag", "different-content-same-tag", f"{coll}: step {sn} (before the collection was deleted and re-created) and step {self.step_no} have different members/contents but the same tag {tag}")
            for ck, ep, wr, t, sn in hist:
                if ck != entry[0] and t == tag:
                    self.violation("ctag", "different-content-same-tag", f"{coll}: steps {sn} and {self.step_no} have different members/contents but the same tag {tag}")
                if wr == entry[2] and t != tag:
                    self.violation("ctag", "tag-changed-without-write", f"{coll}: tag changed {t} -> {tag} between steps {sn} and {self.step_no} although no write to this collection was acknowledged in between")
                if ck == entry[0] and ep == entry[1] and t != tag:
                    self.violation("ctag", "same-content-different-tag", f"{coll}: steps {sn} and {self.step_no} have identical members, contents and properties but tags {t} and {tag}")
                if ck == entry[0] and wr != entry[2] and sn < self.step_no:
                    self.stats["ctag:returned-to-earlier-content"] += 1
            hist.append(entry)


    # -- C09: git audit ---------------------------------------------------------------
    def git(self, fs, *args, stdin=None, ok=(0,)):
        envv = dict(os.environ, GIT_OPTIONAL_LOCKS="0", GIT_CONFIG_NOSYSTEM="1", HOME=self.world.scratch, LC_ALL="C", GIT_TERMINAL_PROMPT="0")
        p = subprocess.run(["git", "-C", fs] + list(args), input=stdin, stdout=subprocess.PIPE, stderr=subprocess.PIPE, env=envv)
        self.stats["git-processes"] += 1
        return p.returncode, p.stdout, p.stderr

    def git_state(self, coll, mc):
        """(chain [(commit, parents)], tree {name: sha}) of a collection's repository."""
        fs = self.world.fs_path(coll)
        if not (os.path.isdir(os.path.join(fs, ".git")) or os.path.isfile(os.path.join(fs, "HEAD"))):
            self.violation("git", "not-a-repository", f"{coll}: {fs} is not a git repository")
        rc, out, err = self.git(fs, "rev-parse", "-q", "--verify", "HEAD")
        chain = []
        if rc != 0:
            out = b""  # unborn branch: no commits yet
        else:
            rc, out, err = self.git(fs, "rev-list", "--parents", "HEAD")
        if rc == 0 or not out and not err:
            for ln in out.decode().splitlines():
                parts = ln.split()
                chain.append((parts[0], parts[1:]))
        elif b"unknown revision" in err or b"bad revision" in err or b"ambiguous argument" in err:
            chain = []
        else:
            self.violation("git", "rev-list-failed", f"{coll}: git rev-list failed: {err[:300]!r}")
        tree = {}
        if chain:
            rc, out, err = self.git(fs, "ls-tree", "-r", "-z", "HEAD")
            if rc != 0:
                self.violation("git", "ls-tree-failed", f"{coll}: git ls-tree failed: {err[:300]!r}")
            for ent in out.split(b"\0"):
                if not ent:
                    continue
                meta, name = ent.split(b"\t", 1)
                mode, typ, sha = meta.split()
                tree[name.decode("utf-8")] = (typ.decode(), sha.decode())
        return chain, tree

    def obs_git(self, step):
        full = step is None or step.get("op") == "RESTART"
        prev = self.git_heads
        new = {}
        for coll, mc in self.model.colls.items():
            inc = getattr(mc, "_ginc", None)
            if inc is None:
                self.ginc = getattr(self, "ginc", 0) + 1
                mc._ginc = inc = self.ginc
            fs = self.world.fs_path(coll)
            chain, tree = self.git_state(coll, mc)
            new[(coll, inc)] = (chain, tree)
            # linear history
            for i, (c, parents) in enumerate(chain):
                if len(parents) > 1:
                    self.violation("git", "merge-commit", f"{coll}: commit {c} has {len(parents)} parents")
                if i + 1 < len(chain):
                    if parents != [chain[i + 1][0]]:
                        self.violation("git", "non-linear-history", f"{coll}: commit {c} has parents {parents}, expected [{chain[i + 1][0]}]")
                elif parents:
                    self.violation("git", "dangling-parent", f"{coll}: oldest listed commit {c} has parents {parents}")
            old = prev.get((coll, inc))
            touched = coll in self.last_touched
            if old is not None:
                ochain, otree = old
                oids = [c for c, _ in ochain]
                nids = [c for c, _ in chain]
                if oids and nids[len(nids) - len(oids):] != oids:
                    self.violation("git", "history-rewritten", f"{coll}: previous history {oids[:3]}.. is not a suffix of the new history {nids[:4]}..")
                added = len(nids) - len(oids)
                tree_changed = otree != tree
                last = self.last
                acked_here = bool(last.get("ack")) and last.get("coll") == coll
                if not acked_here:
                    if added != 0 or tree_changed:
                        self.violation("git", "commit-without-acknowledged-change", f"{coll}: {added} commit(s) added / tree changed={tree_changed} by step {step and step.get('op')} that was not an acknowledged change of this collection")
                else:
                    maxc = 1
                    if last.get("op") == "PROPPATCH":
                        maxc = max(1, len(last.get("acked", [])))
                    if tree_changed and not (1 <= added <= maxc):
                        self.violation("git", "wrong-commit-count", f"{coll}: acknowledged {last.get('op')} changed the tree but added {added} commits (expected 1..{maxc})")
                    if not tree_changed and added != 0 and not (last.get("op") == "PROPPATCH" and 2 <= added <= maxc):
                        self.violation("git", "commit-for-noop", f"{coll}: acknowledged {last.get('op')} did not change the tree but added {added} commit(s)")
                    if tree_changed:
                        self.stats["git:commit-checked"] += 1
                    else:
                        self.stats["git:noop-checked"] += 1
            # head tree = model members (+ .xandikos)
            names = {n for n in tree if n != ".xandikos"}
            if names != set(mc.members):
                self.violation("git", "tree-membership", f"{coll}: HEAD tree lists {sorted(names)} expected {sorted(mc.members)}")
            if touched or full or old is None:
                shas = [(n, tree[n][1]) for n in sorted(names)]
                if shas:
                    rc, out, err = self.git(fs, "cat-file", "--batch", stdin="".join(s + "\n" for _, s in shas).encode())
                    pos = 0
                    for n, sha in shas:
                        nl = out.index(b"\n", pos)
                        hdr = out[pos:nl].split()
                        size = int(hdr[2])
                        blob = out[nl + 1 : nl + 1 + size]
                        pos = nl + 1 + size + 1
                        m = mc.members[n]
                        if not same_body(m.raw, blob, n, m):
                            self.violation("git", "blob-content", f"{coll}/{n}: blob {sha} holds {blob[:200]!r}, expected {m.raw[:200]!r}")
                        etag = self.cur_etag.get((coll, n))
                        served = self.seen_etag_body[coll + "/" + n].get(etag)
                        if served is not None and hashlib.sha1(blob).hexdigest() != served:
                            self.violation("git", "blob-differs-from-served", f"{coll}/{n}: committed blob differs from the bytes GET serves")
                if not mc.bare:
                    rc, out, err = self.git(fs, "status", "--porcelain", "-z", "--untracked-files=all", "--ignore-submodules=none")
                    if rc != 0:
                        self.violation("git", "status-failed", f"{coll}: git status failed: {err[:300]!r}")
                    for ent in out.split(b"\0"):
                        if not ent:
                            continue
                        code, path = ent[:2].decode(), ent[3:].decode("utf-8", "replace")
                        if code == "??":
                            top = path.split("/", 1)[0]
                            if coll + "/" + top in self.model.colls:
                                continue  # a nested collection lives in the parent's working tree
                        self.violation("git", "status-not-clean", f"{coll}: git status reports {code!r} {path!r}")
                    self.stats["git:status-checked"] += 1
                rc, out, err = self.git(fs, "fsck", "--strict", "--no-progress")
                msgs = [ln for ln in (out + err).decode("utf-8", "replace").splitlines() if ln and not ln.startswith(("dangling ", "notice:", "Checking "))]
                if rc != 0 or msgs:
                    self.violation("git", "fsck", f"{coll}: git fsck exit {rc}: {msgs[:5]}")
                self.stats["git:fsck-checked"] += 1
        self.git_heads = new


    # -- C07: sync-collection ------------------------------------------------------
    def read_sync_token(self, coll, fe="wsgi"):
        r = self.req(fe, "PROPFIND", coll + "/", [("Depth", "0"), dav.XML_CT], dav.propfind_body([P_SYNC]))
        ms = dav.parse_ms(r)
        if ms is None or not ms.responses:
            self.violation("sync", "token-propfind-failed", f"PROPFIND sync-token on {coll}: {r.status} {r.exc or r.body[:200]!r}")
        return ms.responses[0].prop_text(P_SYNC)

    def obs_sync(self, step):
        """Record the token and the member->ETag snapshot of every collection after every step."""
        self.sync_inc = getattr(self, "sync_inc", collections.Counter())
        for coll, mc in self.model.colls.items():
            if getattr(mc, "_sinc", None) is None:
                self.sync_inc[coll] += 1
                mc._sinc = self.sync_inc[coll]
            tok = self.read_sync_token(coll)
            snap = {n: self.cur_etag.get((coll, n)) for n in mc.members}
            self.sync_tokens[(coll, mc._sinc)].append((tok, snap, self.step_no))

    def sync_report(self, st):
        """Executed for REPORT steps with kind == 'sync' when the sync observer is on."""
        coll = SLOTS[st["coll"]]
        mc = self.model.colls.get(coll)
        spec = st.get("tok") or {"kind": "empty"}
        fe = st["fe"]
        if mc is None:
            return
        inc = getattr(mc, "_sinc", None)
        hist = self.sync_tokens.get((coll, inc), []) if inc else []
        kind = spec["kind"]
        issued = {t for t, _, _ in hist}
        snap_i = None
        idx = None
        if kind == "issued" and hist:
            idx = spec.get("k", 0) % len(hist)
            token, snap_i, _ = hist[idx]
        elif kind == "current" and hist:
            idx = len(hist) - 1
            token, snap_i, _ = hist[-1]
        elif kind == "empty" or not hist and kind in ("issued", "current"):
            kind = "empty"
            token = ""
        else:
            kind = "foreign"
            fk = spec.get("f", "random")
            if fk == "other-coll":
                others = [h[-1][0] for (c, i), h in self.sync_tokens.items() if c != coll and h]
                token = others[spec.get("k", 0) % len(others)] if others else "1" * 40
            elif fk == "blob":
                ets = sorted(e.strip('"') for (c, n), e in self.cur_etag.items() if e)
                token = ets[spec.get("k", 0) % len(ets)] if ets else "2" * 40
            elif fk == "commit":
                heads = getattr(self, "git_heads", {})
                token = "3" * 40
                try:
                    rc, out, err = self.git(self.world.fs_path(coll), "rev-parse", "-q", "--verify", "HEAD")
                    if rc == 0:
                        token = out.decode().strip()
                except Exception:
                    pass
            elif fk == "nonhex":
                token = "not-a-token"
            elif fk == "long":
                token = "ab" * 300
            elif fk == "nonascii":
                token = "tökén-日"
            elif fk == "uri":
                token = "http://example.com/sync/1234"
            else:
                token = hashlib.sha1(("foreign" + str(spec.get("k", 0))).encode()).hexdigest()
            if token in issued:
                return  # coincides with a token this collection did issue
            if token == EMPTY_TREE:
                # the id of the empty tree denotes a well-defined state (no members); the server may
                # refuse it or answer the correct difference from the empty state - checked as 'empty'
                self.stats["sync:foreign-empty-tree"] += 1
                return
        # clients ask for different property sets; which members are reported must not depend on that
        want = {"etag": (P_ETAG,), "ctype": ("{DAV:}getcontenttype",), "rt+ctype": (P_RT, "{DAV:}getcontenttype"), "etag+ctype": (P_ETAG, "{DAV:}getcontenttype"), "none": ()}[st.get("props", "etag")]
        with_etag = P_ETAG in want
        r = self.req(fe, "REPORT", coll + "/", [("Depth", "1"), dav.XML_CT], dav.sync_body(token, props=want))
        self.stats["sync:" + kind] += 1
        self.stats["sync:props:" + st.get("props", "etag")] += 1
        if kind == "foreign":
            ok_error = r.status >= 400
            ms = dav.parse_ms(r) if r.status == 207 else None
            if ms is not None:
                ok_error = ms.has_error() and not ms.has_sync_token
            if r.status >= 500:
                self.stats["sync:foreign-5xx"] += 1
            if not ok_error and ms is not None and ms.has_sync_token:
                # Tokens are content hashes.  A token taken from another collection names a *state*; if this
                # collection's repository happens to hold that tree too (e.g. written by a request that was then
                # refused) the server may answer - but then with the exact difference from that state.
                snaps = [snap for (c_, i_), h_ in self.sync_tokens.items() for (t_, snap, _s) in h_ if t_ == token]
                cur_ = {n: self.cur_etag.get((coll, n)) for n in mc.members}
                for snap in snaps:
                    replica = dict(snap)
                    for resp in ms.responses:
                        n = name_from_href(resp.href)
                        if resp.status == 404:
                            replica.pop(n, None)
                        else:
                            replica[n] = resp.prop_text(P_ETAG) if with_etag else cur_.get(n)
                    if replica == cur_:
                        self.stats["sync:foreign-token-names-equal-content-state"] += 1
                        return
            if not ok_error:
                self.violation("sync", "foreign-token-accepted", f"sync-collection on {coll} with never-issued token {token!r} ({spec}) answered {r.status} {r.body[:300]!r}")
            self.sync_nontrivial = getattr(self, "sync_nontrivial", set())
            return
        ms = dav.parse_ms(r)
        if ms is None or ms.has_error() and all(x.status != 404 for x in ms.responses if x.status):
            self.violation("sync", "report-failed", f"sync-collection on {coll} with issued token {token!r} answered {r.status} {r.exc or r.body[:300]!r}")
        cur = {n: self.cur_etag.get((coll, n)) for n in mc.members}
        old = snap_i or {}
        exp_changed = {n for n in cur if n not in old or old[n] != cur[n]}
        exp_removed = {n for n in old if n not in cur}
        got_changed = {}
        got_removed = set()
        for resp in ms.responses:
            n = name_from_href(resp.href)
            if resp.status == 404:
                if n in got_removed:
                    self.violation("sync", "duplicate-response", f"{coll}: {n!r} reported twice")
                got_removed.add(n)
            else:
                if n in got_changed:
                    self.violation("sync", "duplicate-response", f"{coll}: {n!r} reported twice")
                got_changed[n] = resp.prop_text(P_ETAG) if with_etag else cur.get(n)
        desc = f"sync-collection on {coll} (properties asked: {st.get('props', 'etag')}) from token {token!r} (issued after step {hist[idx][2] if idx is not None else 'n/a'}, kind {kind})"
        if set(got_changed) != exp_changed:
            self.violation("sync", "changed-set", f"{desc}: reported changed {sorted(got_changed)} expected {sorted(exp_changed)}")
        if got_removed != exp_removed:
            self.violation("sync", "removed-set", f"{desc}: reported removed {sorted(got_removed)} expected {sorted(exp_removed)}")
        for n, e in got_changed.items():
            if e != cur[n]:
                self.violation("sync", "etag", f"{desc}: {n!r} reported with ETag {e}, current is {cur[n]}")
        if not ms.has_sync_token:
            self.violation("sync", "no-token", f"{desc}: the answer carries no sync-token")
        now = self.read_sync_token(coll)
        if ms.sync_token != now:
            self.violation("sync", "returned-token", f"{desc}: returned token {ms.sync_token!r} but DAV:sync-token is {now!r}")
        # replica: apply to state i -> must be state j
        replica = dict(old)
        for n in got_removed:
            replica.pop(n, None)
        replica.update(got_changed)
        if replica != cur:
            self.violation("sync", "replica-diverges", f"{desc}: replica {replica} != current {cur}")
        # non-triviality: between i and j some name was deleted and re-created, or reverted
        if idx is not None:
            seqs = []
            for n in set().union(*[set(h[1]) for h in hist[idx:]] or [set()]):
                seq = []
                for _, snap, _ in hist[idx:]:
                    v = snap.get(n)
                    if not seq or seq[-1] != v:
                        seq.append(v)
                if len(seq) >= 3 and (None in seq[1:-1] or len(set(seq)) < len(seq)):
                    seqs.append((n, tuple(seq)))
            if seqs and idx < len(hist) - 1:
                self.sync_nontrivial = getattr(self, "sync_nontrivial", set())
                self.sync_nontrivial.add(hashlib.sha1(repr((idx, len(hist), sorted(seqs))).encode()).hexdigest())
                self.stats["sync:nontrivial"] += 1


    # -- C15: collection properties --------------------------------------------------
    SETTABLE = [P_DISPLAYNAME, P_COMMENT, P_CALCOLOR, P_CALORDER, P_ABDESC, P_ABCOLOR, P_CALDESC, P_REFRESH]

    def obs_props(self, step):
        fe = step.get("afe", "wsgi") if step else "wsgi"
        self.removed_props = getattr(self, "removed_props", {})
        for coll, mc in self.model.colls.items():
            r = self.req(fe, "PROPFIND", coll + "/", [("Depth", "0"), dav.XML_CT], dav.propfind_body(self.SETTABLE + [P_RT]))
            ms = dav.parse_ms(r)
            if ms is None or not ms.responses or ms.responses[0].status == 404:
                self.violation("props", "propfind-failed", f"PROPFIND of {coll} failed: {r.status} {r.exc or r.body[:300]!r}; properties set so far: {mc.props}")
            resp = ms.responses[0]
            for k, v in mc.props.items():
                st_ = resp.prop_status(k)
                got = resp.prop_text(k)
                if st_ == 200 and findings.k7_multiline_config_value(mc.meta, v, got):
                    self.known["K7"] += 1
                    mc.props[k] = got  # adopt the observed value so that the history can continue
                    continue
                if st_ != 200 or got != v:
                    self.violation("props", f"readback:{k.split('}')[1]}", f"{coll}: {k} was set to {v!r} (acknowledged) but PROPFIND returns status {st_} value {got!r}")
                self.stats["props:readback-ok"] += 1
                if self.stats.get("restarts"):
                    self.stats["props:readback-after-restart"] += 1
            for (c, k) in list(self.removed_props):
                if c != coll or k in mc.props:
                    continue
                got = resp.prop_text(k)
                if got not in (None, "") and not (k == P_DISPLAYNAME and got == posixpath.basename(coll)):
                    self.violation("props", "removed-still-set", f"{coll}: {k} was removed (acknowledged) but PROPFIND still returns {got!r}")
            rts = resp.resourcetypes()
            if rts is not None and mc.kind in KIND_RT and rts != KIND_RT[mc.kind]:
                self.violation("props", "resourcetype-changed", f"{coll}: resourcetype {rts}, expected {KIND_RT[mc.kind]}")


    # -- C16: listings and hrefs --------------------------------------------------------
    ID_PROPS = [P_ETAG, P_RT, P_DISPLAYNAME]

    def base_url(self, target):
        return "http://localhost" + target

    def deref_props(self, fe, target):
        """PROPFIND Depth 0 on a request target exactly as given -> MSResponse or None (404)."""
        r = self.req(fe, "PROPFIND", None, [("Depth", "0"), dav.XML_CT], dav.propfind_body(self.ID_PROPS), raw_target=target)
        ms = dav.parse_ms(r)
        if ms is None or not ms.responses:
            return None, r
        if ms.responses[0].status == 404:
            return None, r
        return ms.responses[0], r

    def check_emitted(self, fe, req_target, href, what, expect):
        """expect: dict(kind='member', etag=..) | dict(kind='collection', displayname=.., rts=..) | dict(kind='absent') | dict(kind='principal')"""
        self.stats["href:checked"] += 1
        self.stats["href:" + what] += 1
        if href is None or href == "":
            self.violation("hrefs", f"{what}:empty-href", f"{what}: empty href emitted for {expect}")
        target = dav.resolve(self.base_url(req_target), href)
        desc = f"{what}: href {href!r} (request {req_target!r} via {fe}, resolved to {target!r}) emitted for {expect}"
        if expect["kind"] == "member":
            r = self.req(fe, "GET", None, None, None, raw_target=target)
            if r.status != 200:
                self.violation("hrefs", f"{what}:member-href-unresolvable", f"{desc}: GET answered {r.status} {r.exc or ''}")
            if r.header("ETag") != expect["etag"]:
                self.violation("hrefs", f"{what}:member-href-wrong-resource", f"{desc}: GET served ETag {r.header('ETag')}")
            if expect.get("body") is not None and not (r.body == expect["body"] or icalref.same_calendar(expect["body"], r.body)):
                self.violation("hrefs", f"{what}:member-href-wrong-body", f"{desc}: GET served {r.body[:200]!r}")
            nm = expect.get("name")
            if nm is not None:
                cls = "nonascii" if any(ord(c) > 127 for c in nm) else ("encoded" if dav.quote_name(nm) != nm else "plain")
                self.href_classes = getattr(self, "href_classes", set())
                self.href_classes.add((cls, self.world.prefix, fe, what))
        elif expect["kind"] == "absent":
            r = self.req(fe, "GET", None, None, None, raw_target=target)
            if r.status != 404:
                self.violation("hrefs", f"{what}:absent-href-resolves", f"{desc}: GET answered {r.status}, expected 404")
        else:
            resp, r = self.deref_props(fe, target)
            if resp is None:
                self.violation("hrefs", f"{what}:collection-href-unresolvable", f"{desc}: PROPFIND answered {r.status} {r.exc or r.body[:200]!r}")
            rts = resp.resourcetypes() or []
            if expect["kind"] == "principal":
                if "{DAV:}principal" not in rts:
                    self.violation("hrefs", f"{what}:not-a-principal", f"{desc}: resourcetype {rts}")
            else:
                if RT_COLL in rts and not (resp.href or "").endswith("/"):
                    self.violation("hrefs", f"{what}:collection-href-no-slash", f"{desc}: dereferenced collection is described with href {resp.href!r}")
                if expect.get("rts") is not None and rts != expect["rts"]:
                    self.violation("hrefs", f"{what}:collection-href-wrong-type", f"{desc}: resourcetype {rts} expected {expect['rts']}")
                if expect.get("displayname") is not None and resp.prop_text(P_DISPLAYNAME) != expect["displayname"]:
                    self.violation("hrefs", f"{what}:collection-href-wrong-resource", f"{desc}: displayname {resp.prop_text(P_DISPLAYNAME)!r} expected {expect['displayname']!r}")
                if RT_COLL in rts and not href.endswith("/"):
                    self.violation("hrefs", f"{what}:collection-href-no-slash", f"{desc}: emitted href of a collection does not end in '/'")

    def coll_expect(self, coll):
        mc = self.model.colls.get(coll)
        if mc is None:
            if coll == "/user":
                return {"kind": "principal"}
            return {"kind": "absent"}
        return {"kind": "collection", "displayname": mc.props.get(P_DISPLAYNAME, posixpath.basename(coll)), "rts": KIND_RT.get(mc.kind)}

    def check_listing(self, fe, req_target, ms, coll, depth, what):
        """Multistatus of a PROPFIND on collection `coll`."""
        mc = self.model.colls[coll]
        resps = ms.responses
        exp_n = 1 + (len(mc.members) + len(self.model.children(coll)) if depth == 1 else 0)
        if len(resps) != exp_n:
            self.violation("hrefs", f"{what}:response-count", f"PROPFIND Depth {depth} on {req_target!r}: {len(resps)} responses ({[x.href for x in resps]}), expected {exp_n}")
        hrefs = [x.href for x in resps]
        if len(set(hrefs)) != len(hrefs):
            self.violation("hrefs", f"{what}:duplicate-href", f"PROPFIND Depth {depth} on {req_target!r}: duplicate hrefs {hrefs}")
        self.check_emitted(fe, req_target, resps[0].href, what + ":self", self.coll_expect(coll))
        if depth == 1:
            by_etag = {self.cur_etag[(coll, n)]: n for n in mc.members}
            by_dn = {self.coll_expect(p)["displayname"]: p for p in self.model.children(coll)}
            seen = set()
            for resp in resps[1:]:
                rts = resp.resourcetypes() or []
                if RT_COLL in rts:
                    dn = resp.prop_text(P_DISPLAYNAME)
                    if dn not in by_dn:
                        self.violation("hrefs", f"{what}:unknown-subcollection", f"PROPFIND Depth 1 on {req_target!r} lists a collection with displayname {dn!r}; expected one of {sorted(by_dn)}")
                    ident = ("c", dn)
                    self.check_emitted(fe, req_target, resp.href, what + ":subcollection", self.coll_expect(by_dn[dn]))
                else:
                    e = resp.prop_text(P_ETAG)
                    if e not in by_etag:
                        self.violation("hrefs", f"{what}:unknown-member", f"PROPFIND Depth 1 on {req_target!r} lists a member with ETag {e}; expected one of {by_etag}")
                    ident = ("m", e)
                    n = by_etag[e]
                    self.check_emitted(fe, req_target, resp.href, what + ":member", {"kind": "member", "etag": e, "body": mc.members[n].raw, "name": n})
                if ident in seen:
                    self.violation("hrefs", f"{what}:listed-twice", f"PROPFIND Depth 1 on {req_target!r}: {ident} listed twice")
                seen.add(ident)

    def op_HREFS(self, st):
        """Probe: one request of the given kind, then dereference everything it emitted."""
        coll = SLOTS[st["coll"]]
        fe = st["fe"]
        what = st["what"]
        mc = self.model.colls.get(coll)
        slash = "/" if st.get("slash", True) else ""
        self.last = {"op": "HREFS", "ack": False, "coll": coll}
        if self.cfg.get("audit") == "sparse":
            self.refresh_etags(coll, fe)
        # every member must have a distinct ETag for identification
        if mc is not None:
            ets = [self.cur_etag.get((coll, n)) for n in mc.members]
            if len(set(ets)) != len(ets):
                self.stats["href:skipped-ambiguous"] += 1
                return set()
        if what in ("propfind0", "propfind1"):
            depth = 0 if what == "propfind0" else 1
            target = self.world.url(coll + slash)
            r = self.req(fe, "PROPFIND", None, [("Depth", str(depth)), dav.XML_CT], dav.propfind_body(self.ID_PROPS), raw_target=target)
            ms = dav.parse_ms(r)
            if ms is None:
                self.violation("hrefs", "propfind-failed", f"PROPFIND {target!r}: {r.status} {r.exc or r.body[:200]!r}")
            if mc is None:
                if len(ms.responses) != 1 or ms.responses[0].status != 404:
                    self.violation("hrefs", "propfind-missing-not-404", f"PROPFIND on missing {target!r}: {[(x.href, x.status) for x in ms.responses]}")
                self.check_emitted(fe, target, ms.responses[0].href, "propfind-404", {"kind": "absent"})
            else:
                self.check_listing(fe, target, ms, coll, depth, what)
        elif what == "propfind-member":
            if mc is None or not mc.members:
                return set()
            n = sorted(mc.members)[st.get("k", 0) % len(mc.members)]
            target = self.world.url(self.member_path(coll, n))
            r = self.req(fe, "PROPFIND", None, [("Depth", str(st.get("depth", 0))), dav.XML_CT], dav.propfind_body(self.ID_PROPS), raw_target=target)
            ms = dav.parse_ms(r)
            if ms is None or len(ms.responses) != 1:
                self.violation("hrefs", "propfind-member:response-count", f"PROPFIND on member {target!r}: {r.status} {[x.href for x in ms.responses] if ms else r.body[:200]}")
            self.check_emitted(fe, target, ms.responses[0].href, "propfind-member", {"kind": "member", "etag": self.cur_etag[(coll, n)], "body": mc.members[n].raw, "name": n})
        elif what == "proppatch":
            target = self.world.url(coll + slash)
            dn = st.get("value", "Name") + " " + st["coll"]  # unique per collection: displaynames identify collections
            r = self.req(fe, "PROPPATCH", None, [dav.XML_CT], dav.proppatch_body([(P_DISPLAYNAME, dn)]), raw_target=target)
            ms = dav.parse_ms(r)
            if ms is None or not ms.responses:
                self.violation("hrefs", "proppatch-failed", f"PROPPATCH {target!r}: {r.status} {r.exc or r.body[:200]!r}")
            if mc is not None and ms.responses[0].prop_status(P_DISPLAYNAME) == 200:
                mc.props[P_DISPLAYNAME] = dn
                mc.epoch += 1
                self.coll_writes[coll] += 1
                self.last["ack"] = True
            self.check_emitted(fe, target, ms.responses[0].href, "proppatch", self.coll_expect(coll))
            return {coll}
        elif what in ("multiget", "query", "sync"):
            if mc is None or mc.kind not in ("calendar", "addressbook"):
                return set()
            target = self.world.url(coll + slash)
            ext = ".ics" if mc.kind == "calendar" else ".vcf"
            sel = [n for n in sorted(mc.members) if n.endswith(ext)]
            if what == "multiget":
                hrefs = [self.world.url(self.member_path(coll, n)) for n in sel]
                body = dav.multiget_body(mc.kind, hrefs, data=False)
            elif what == "query":
                body = dav.calquery_body(dav.MATCH_ALL_CAL, data=False) if mc.kind == "calendar" else dav.abquery_body(None, data=False)
            else:
                body = dav.sync_body("")
                sel = sorted(mc.members)
            r = self.req(fe, "REPORT", None, [("Depth", "1"), dav.XML_CT], body, raw_target=target)
            ms = dav.parse_ms(r)
            if ms is None:
                self.violation("hrefs", f"{what}-failed", f"REPORT {what} on {target!r}: {r.status} {r.exc or r.body[:200]!r}")
            by_etag = {self.cur_etag[(coll, n)]: n for n in sel}
            got = set()
            for resp in ms.responses:
                e = resp.prop_text(P_ETAG)
                if e is None and what == "query" and mc.kind == "addressbook":
                    continue  # C12 covers what an addressbook-query returns
                if e not in by_etag and what == "query" and mc.kind == "addressbook":
                    continue  # which resources an addressbook-query returns is C12's subject
                if e not in by_etag:
                    self.violation("hrefs", f"{what}:unknown-member", f"REPORT {what} on {target!r}: response {resp.href!r} with ETag {e}; expected {by_etag}")
                got.add(e)
                n = by_etag[e]
                self.check_emitted(fe, target, resp.href, what, {"kind": "member", "etag": e, "body": mc.members[n].raw, "name": n})
            if got != set(by_etag):
                self.violation("hrefs", f"{what}:incomplete", f"REPORT {what} on {target!r}: answered {len(got)} of {len(by_etag)} members")
        elif what == "post":
            if mc is None:
                return set()
            target = self.world.url(coll + slash)
            body = body_of(st)
            r = self.req(fe, "POST", None, [("Content-Type", st["ctype"])], body, raw_target=target)
            if dav.acknowledged(r):
                loc = r.header("Location")
                if not loc:
                    self.violation("hrefs", "post:no-location", f"POST {target!r} answered {r.status} without Location")
                t = dav.resolve(self.base_url(target), loc)
                g = self.req(fe, "GET", None, None, None, raw_target=t)
                if g.status != 200 or not (g.body == body or icalref.same_calendar(body, g.body)):
                    self.violation("hrefs", "post:location-unresolvable", f"POST {target!r} via {fe}: Location {loc!r} resolves to {t!r} which answers {g.status} {g.body[:100]!r}")
                name = urllib.parse.unquote(t.rsplit("/", 1)[-1])
                mc.members[name] = MMember(body, st["ctype"], 1)
                self.coll_writes[coll] += 1
                self.last["ack"] = True
                self.stats["href:post-location"] += 1
            return {coll}
        elif what == "props":
            # href-valued properties
            target = self.world.url(coll + slash) if mc is not None else self.world.url("/user/")
            props = ["{DAV:}current-user-principal", "{DAV:}principal-URL", "{urn:ietf:params:xml:ns:caldav}calendar-home-set", "{urn:ietf:params:xml:ns:carddav}addressbook-home-set", "{DAV:}add-member"]
            for tgt, subject in ((target, coll if mc is not None else "/user"), (self.world.url("/user/"), "/user"), (self.world.url("/user"), "/user")):
                r = self.req(fe, "PROPFIND", None, [("Depth", "0"), dav.XML_CT], dav.propfind_body(props), raw_target=tgt)
                ms = dav.parse_ms(r)
                if ms is None or not ms.responses:
                    self.violation("hrefs", "props-propfind-failed", f"PROPFIND {tgt!r}: {r.status} {r.exc or r.body[:200]!r}")
                resp = ms.responses[0]
                for h in resp.prop_hrefs(props[0]):
                    self.check_emitted(fe, tgt, h, "current-user-principal", {"kind": "principal"})
                for h in resp.prop_hrefs(props[1]):
                    self.check_emitted(fe, tgt, h, "principal-URL", {"kind": "principal"})
                for h in resp.prop_hrefs(props[2]):
                    self.check_emitted(fe, tgt, h, "calendar-home-set", self.coll_expect("/user/calendars"))
                for h in resp.prop_hrefs(props[3]):
                    self.check_emitted(fe, tgt, h, "addressbook-home-set", self.coll_expect("/user/contacts"))
                for h in resp.prop_hrefs(props[4]):
                    self.check_emitted(fe, tgt, h, "add-member", self.coll_expect(subject) if subject != "/user" else {"kind": "principal"})
            # the same properties of *members* in a Depth 1 answer: each value belongs to the member it is listed under
            if mc is not None:
                parent = posixpath.dirname(coll)
                tgt = self.world.url(parent + "/")
                r = self.req(fe, "PROPFIND", None, [("Depth", "1"), dav.XML_CT], dav.propfind_body([props[4], P_RT]), raw_target=tgt)
                ms = dav.parse_ms(r)
                if ms is not None:
                    pre = self.world.prefix.rstrip("/")
                    for resp in ms.responses[1:]:
                        rp = dav.href_path(dav.resolve("http://localhost" + tgt, resp.href or "")) or ""
                        rp = (rp[len(pre):] if pre and rp.startswith(pre) else rp).rstrip("/")
                        if rp in self.model.colls:
                            for h in resp.prop_hrefs(props[4]):
                                self.stats["href:add-member-depth1"] += 1
                                self.check_emitted(fe, tgt, h, "add-member-of-listed-member", self.coll_expect(rp))
        return set()


    # -- C17: multiget ------------------------------------------------------------------
    def mg_resolve_spec(self, spec, coll, mc, pools):
        """-> href string as sent."""
        k = spec["kind"]
        i = spec.get("k", 0)
        live = sorted(mc.members) if mc else []
        pre = self.world.prefix.rstrip("/")

        def member_href(c, n):
            return self.world.url(self.member_path(c, n))

        if k == "live" and live:
            return member_href(coll, live[i % len(live)])
        if k == "dead":
            cands = [n for n in pools["names"] if n not in live]
            return member_href(coll, cands[i % len(cands)] if cands else "never-%d.ics" % i)
        if k == "never" or (k in ("live", "literal", "params-suffix", "overencoded", "absolute", "lookalike", "noprefix", "trailing-slash", "dot-segment", "double-slash", "dotdot") and not live):
            return member_href(coll, "never-%d.ics" % i)
        if k == "literal" and live:
            # minimal encoding: sub-delimiters (; , = + & @ ! $ ' ( ) * :) stay literal, as RFC 3986 allows in a path segment
            n = live[i % len(live)]
            return self.world.url(coll + "/" + urllib.parse.quote(n, safe=";,=+&@!$'()*:~"))
        if k == "params-suffix" and live:
            # '<existing name>;1' is a different, non-existent resource
            n = live[i % len(live)]
            return self.world.url(coll + "/" + dav.quote_name(n)) + draw_suffix(i)
        if k in ("trailing-slash", "dot-segment", "double-slash", "dotdot") and live:
            # other spellings of a live member's path (they normalise to it): each is a distinct requested href
            n = dav.quote_name(live[i % len(live)])
            return self.world.url({"trailing-slash": f"{coll}/{n}/", "dot-segment": f"{coll}/./{n}", "double-slash": f"{coll}//{n}", "dotdot": f"{coll}/x/../{n}"}[k])
        if k == "overencoded":
            n = live[i % len(live)]
            return self.world.url(coll + "/" + "".join("%%%02X" % b for b in n.encode("utf-8")))
        if k == "absolute":
            return "http://localhost" + member_href(coll, live[i % len(live)])
        if k == "collection":
            return self.world.url(coll + "/")
        if k == "other-coll":
            others = [(c, n) for c, m in sorted(self.model.colls.items()) if c != coll for n in sorted(m.members)]
            if not others:
                return member_href("/user/calendars/c2", "x.ics")
            c, n = others[i % len(others)]
            return member_href(c, n)
        if k == "lookalike":
            # prefix look-alike: '/dav/' -> '/davuser/...' (outside the namespace unless the prefix is '/')
            return pre + self.member_path(coll, live[i % len(live)]).lstrip("/") if pre else "/x" + member_href(coll, live[i % len(live)])
        if k == "noprefix":
            return self.member_path(coll, live[i % len(live)]) if pre else "/zz" + member_href(coll, live[i % len(live)])
        if k == "empty":
            return ""
        if k == "malformed":
            return ["::::", "%zz%", "http://[bad", "?q=1", "#frag", "relative/x.ics"][i % 6]
        return member_href(coll, "never-%d.ics" % i)

    def mg_expect(self, href):
        """Classify an href as sent: ('member', coll, name) | ('none',) | ('collection', coll) | ('unmatched',)"""
        try:
            sp = urllib.parse.urlsplit(href)
        except ValueError:
            return ("unmatched",), None
        p = urllib.parse.unquote(sp.path)
        if not p:
            return ("unmatched",), None
        pre = self.world.prefix.rstrip("/")
        if pre and not (p == pre or p.startswith(pre + "/")):
            return ("none",), p
        app = p[len(pre):] or "/"
        if not app.startswith("/"):
            return ("none",), p
        norm = posixpath.normpath(app)
        if norm.startswith("//"):
            norm = norm[1:]
        if norm in self.model.colls or norm in ("/user", "/"):
            return ("collection", norm), p
        c, n = posixpath.split(norm)
        mc = self.model.colls.get(c)
        if mc is not None and n in mc.members:
            return ("member", c, n), p
        return ("none",), p

    def mg_request(self, fe, coll, kind, hrefs):
        body = dav.multiget_body(kind, hrefs)
        r = self.req(fe, "REPORT", coll + "/", [("Depth", "1"), dav.XML_CT], body)
        ms = dav.parse_ms(r)
        if ms is None:
            self.violation("multiget", "report-failed", f"{kind}-multiget on {coll} with hrefs {hrefs}: {r.status} {r.exc or r.body[:300]!r}")
        dprop = "{urn:ietf:params:xml:ns:caldav}calendar-data" if kind == "calendar" else "{urn:ietf:params:xml:ns:carddav}address-data"
        out = {}
        for resp in ms.responses:
            p = dav.href_path(resp.href)
            ans = {"status": resp.status, "etag": resp.prop_text(P_ETAG), "etag_status": resp.prop_status(P_ETAG), "data": resp.prop_text(dprop), "data_status": resp.prop_status(dprop), "href": resp.href}
            out.setdefault(p, []).append(ans)
        return out

    PARTIAL_DATA = {
        "summary": '<C:calendar-data><C:comp name="VCALENDAR"><C:comp name="VEVENT"><C:prop name="SUMMARY"/><C:prop name="UID"/></C:comp><C:comp name="VTODO"><C:prop name="SUMMARY"/></C:comp></C:comp></C:calendar-data>',
        "version-only": '<C:calendar-data><C:comp name="VCALENDAR"><C:prop name="VERSION"/></C:comp></C:calendar-data>',
        "novalue": '<C:calendar-data><C:comp name="VCALENDAR"><C:allprop/><C:comp name="VEVENT"><C:prop name="DESCRIPTION" novalue="yes"/><C:prop name="DTSTART"/></C:comp></C:comp></C:calendar-data>',
        "expand": '<C:calendar-data><C:expand start="20200101T000000Z" end="20210101T000000Z"/></C:calendar-data>',
        "limit": '<C:calendar-data><C:limit-recurrence-set start="20200101T000000Z" end="20200201T000000Z"/></C:calendar-data>',
        "card-fn": '<A:address-data><A:prop name="FN"/><A:prop name="UID"/></A:address-data>',
        "card-version": '<A:address-data content-type="text/vcard" version="3.0"><A:prop name="VERSION"/></A:address-data>',
    }

    def op_PARTIAL(self, st):
        """A REPORT that asks for a *part* of the data (calendar-data / address-data with children).  It is a
        read; what matters is that later plain requests still get the whole resource."""
        coll = SLOTS[st["coll"]]
        mc = self.model.colls.get(coll)
        self.last = {"op": "PARTIAL", "ack": False, "coll": coll}
        if mc is None or mc.kind not in ("calendar", "addressbook"):
            return set()
        cal = mc.kind == "calendar"
        shape = st["shape"] if (st["shape"].startswith("card")) != cal else ("summary" if cal else "card-fn")
        data = self.PARTIAL_DATA[shape]
        names = [n for n in sorted(mc.members)]
        if st.get("via") == "query":
            root = "C:calendar-query" if cal else "A:addressbook-query"
            flt = dav.MATCH_ALL_CAL if cal else ""
            body = f'<?xml version="1.0" encoding="utf-8"?><{root} {dav.NSDECL}><D:prop><D:getetag/>{data}</D:prop>{flt}</{root}>'.encode()
        else:
            root = "C:calendar-multiget" if cal else "A:addressbook-multiget"
            hs = "".join(f"<D:href>{self.world.url(self.member_path(coll, n))}</D:href>" for n in names)
            body = f'<?xml version="1.0" encoding="utf-8"?><{root} {dav.NSDECL}><D:prop><D:getetag/>{data}</D:prop>{hs}</{root}>'.encode()
        r = self.req(st["fe"], "REPORT", coll + "/", [("Depth", "1"), dav.XML_CT], body)
        self.stats[f"partial:{shape}:{r.status}"] += 1
        if r.status >= 500:
            self.stats["5xx"] += 1
            self.note5xx(st, r)
        return set()

    def op_MULTIGET(self, st):
        coll = SLOTS[st["coll"]]
        mc = self.model.colls.get(coll)
        self.last = {"op": "MULTIGET", "ack": False, "coll": coll}
        if mc is None or mc.kind not in ("calendar", "addressbook"):
            return set()
        kind = mc.kind
        fe = st["fe"]
        hrefs = [self.mg_resolve_spec(sp, coll, mc, st.get("pools", {"names": []})) for sp in st["hrefs"]]
        answers = self.mg_request(fe, coll, kind, hrefs)
        ext = ".ics" if kind == "calendar" else ".vcf"
        classes = set()
        wanted = {}
        for h in hrefs:
            exp, p = self.mg_expect(h)
            if exp[0] == "unmatched":
                classes.add("malformed")
                continue
            wanted[p] = exp
        desc = f"{kind}-multiget on {coll} via {fe} (prefix {self.world.prefix}) with hrefs {hrefs}"
        for p, exp in wanted.items():
            got = answers.get(p, [])
            if len(got) != 1:
                self.violation("multiget", "not-answered-exactly-once", f"{desc}: path {p!r} got {len(got)} responses; all answers: { {k: [(a['status'], a['data_status']) for a in v] for k, v in answers.items()} }")
            a = got[0]
            if exp[0] == "member" and exp[2].endswith(ext):
                classes.add("live")
                c, n = exp[1], exp[2]
                g = self.req(fe, "GET", self.member_path(c, n), None, None)
                if a["data_status"] != 200 or a["data"] is None:
                    self.violation("multiget", "live-member-without-data", f"{desc}: {p!r} is a live member but was answered status={a['status']} data_status={a['data_status']}")
                if a["etag"] != g.header("ETag"):
                    self.violation("multiget", "etag-differs-from-get", f"{desc}: {p!r} ETag {a['etag']} but GET says {g.header('ETag')}")
                if a["data"].encode("utf-8").replace(b"\r\n", b"\n") != g.body.replace(b"\r\n", b"\n"):
                    self.violation("multiget", "data-differs-from-get", f"{desc}: {p!r} data {a['data'][:200]!r} but GET serves {g.body[:200]!r}")
            else:
                classes.add("dead" if exp[0] == "none" else "wrong-kind")
                if exp[0] == "none" and p.startswith(self.world.prefix.rstrip("/") + "/") is False:
                    classes.add("out-of-namespace")
                if a["data"] is not None and a["data_status"] == 200:
                    self.violation("multiget", "data-for-nonexistent", f"{desc}: {p!r} ({exp}) was answered with data {a['data'][:120]!r}")
                if not (a["status"] == 404 or a["data_status"] == 404):
                    self.violation("multiget", "no-not-found-status", f"{desc}: {p!r} ({exp}) answered status={a['status']} data_status={a['data_status']}")
        extra = set(answers) - set(wanted)
        for p in extra:
            for a in answers[p]:
                if a["data"] is not None and a["data_status"] == 200:
                    self.violation("multiget", "unrequested-data", f"{desc}: response for {p!r} (not requested) carries data")
        # independence: each href alone, and the list reversed
        def norm(ans):
            return {p: [(a["status"], a["etag"], a["data"], a["data_status"]) for a in v] for p, v in ans.items()}

        full = norm(answers)
        if len(hrefs) > 1:
            rev = norm(self.mg_request(fe, coll, kind, list(reversed(hrefs))))
            if rev != full:
                diff = {p: (full.get(p), rev.get(p)) for p in set(full) | set(rev) if full.get(p) != rev.get(p)}
                self.violation("multiget", "order-dependent", f"{desc}: answers differ when the hrefs are reversed: { {p: [[x[0], x[1], x[3]] for x in (a or [])] + ['vs'] + [[x[0], x[1], x[3]] for x in (b or [])] for p, (a, b) in diff.items()} }")
            for h in dict.fromkeys(hrefs):
                exp, p = self.mg_expect(h)
                if exp[0] == "unmatched":
                    continue
                single = norm(self.mg_request(fe, coll, kind, [h]))
                if single.get(p) != full.get(p):
                    self.violation("multiget", "depends-on-other-hrefs", f"{desc}: {p!r} answered {[(x[0], x[1], x[3]) for x in full.get(p, [])]} in the list but {[(x[0], x[1], x[3]) for x in single.get(p, [])]} alone")
        self.stats["multiget:requests"] += 1
        for c in classes:
            self.stats["multiget:class:" + c] += 1
        if {"live", "dead"} <= classes and ("out-of-namespace" in classes or self.world.prefix == "/" and "wrong-kind" in classes):
            self.mg_nontrivial = getattr(self, "mg_nontrivial", set())
            self.mg_nontrivial.add(hashlib.sha1(repr((sorted(classes), [sp["kind"] for sp in st["hrefs"]], self.world.prefix, fe)).encode()).hexdigest())
        return set()


    # -- C14: validity and fixed point ------------------------------------------------
    def commit_count(self, coll):
        rc, out, err = self.git(self.world.fs_path(coll), "rev-list", "--count", "HEAD")
        return int(out.strip()) if rc == 0 else 0

    def op_C14(self, st):
        coll = SLOTS[st["coll"]]
        name = st["name"]
        body = body_of(st)
        fe = st["fe"]
        mc = self.model.colls.get(coll)
        if isinstance(name, dict):
            # the k-th member the server itself named (created by POST) and that still exists
            live = [n for n in getattr(self, "posted", {}).get(coll, []) if mc is not None and n in mc.members]
            if not live:
                self.last = {"op": "C14", "ack": False, "coll": coll, "name": None}
                return set()
            name = live[name.get("posted", 0) % len(live)]
            self.stats["c14:posted-target"] += 1
        self.last = {"op": "C14", "ack": False, "coll": coll, "name": name}
        if mc is None:
            return set()
        path = self.member_path(coll, name)
        is_cal = name.endswith(".ics") or st["ctype"].lower().startswith("text/calendar")
        root = "VCALENDAR" if is_cal else "VCARD"
        tag0 = self.read_tags(coll, fe)[P_CTAG]
        n0 = self.commit_count(coll)
        before = mc.members.get(name)
        r = self.req(fe, "PUT", path, [("Content-Type", st["ctype"])], body)
        ack = dav.acknowledged(r)
        desc = f"PUT {coll}/{name} via {fe} ({st.get('klass')})"
        if st["valid"]:
            # may legitimately be refused for a UID conflict only
            if not ack:
                if b"no-uid-conflict" in r.body:
                    self.stats["c14:uid-conflict"] += 1
                    return {coll}
                self.violation("valid", "valid-body-refused", f"{desc}: a well-formed body was refused with {r.status} {r.exc or r.body[:300]!r}; body {body[:400]!r}")
            mc.members[name] = MMember(body, st["ctype"], (before.ver + 1) if before else 1)
            self.coll_writes[coll] += 1
            self.last["ack"] = True
            self.stats["ack:PUT"] += 1
            etag1 = r.header("ETag")
            g = self.req(fe, "GET", path, None, None)
            if g.status != 200:
                self.violation("valid", "stored-not-served", f"{desc}: acknowledged but GET answers {g.status}")
            served = g.body
            try:
                tree = icalref.parse_one(served, root)
            except icalref.ParseError as e:
                self.violation("valid", "served-unparseable", f"{desc}: the served bytes do not parse as one {root}: {e}; served {served[:300]!r}")
            if is_cal:
                if tree.canon() != icalref.parse_one(body, root).canon():
                    self.violation("valid", "served-differs", f"{desc}: served object is not property-for-property identical; sent {body[:300]!r} served {served[:300]!r}")
            elif served != body:
                self.violation("valid", "served-differs", f"{desc}: vCard not served byte-identically")
            if mc.kind in ("calendar", "addressbook") and name.endswith(".ics" if mc.kind == "calendar" else ".vcf"):
                ans = self.mg_request(fe, coll, mc.kind, [self.world.url(path)])
                a = (ans.get(urllib.parse.unquote(self.world.url(path))) or [None])[0]
                if a is None or a["data"] is None or a["data"].encode("utf-8").replace(b"\r\n", b"\n") != served.replace(b"\r\n", b"\n"):
                    self.violation("valid", "multiget-differs", f"{desc}: multiget data differs from GET")
            tag1 = self.read_tags(coll, fe)[P_CTAG]
            n1 = self.commit_count(coll)
            # upload again what the server serves
            r2 = self.req(fe, "PUT", path, [("Content-Type", st["ctype"])], served)
            if not dav.acknowledged(r2):
                self.violation("fixpoint", "reupload-refused", f"{desc}: re-uploading the served bytes was refused with {r2.status} {r2.exc or r2.body[:200]!r}")
            mc.members[name] = MMember(served, st["ctype"], mc.members[name].ver + 1)
            g2 = self.req(fe, "GET", path, None, None)
            tag2 = self.read_tags(coll, fe)[P_CTAG]
            n2 = self.commit_count(coll)
            if r2.header("ETag") != etag1 or g2.header("ETag") != etag1:
                self.violation("fixpoint", "etag-changed", f"{desc}: re-upload of the served bytes changed the ETag {etag1} -> {r2.header('ETag')} / {g2.header('ETag')}; served {served[:300]!r} now {g2.body[:300]!r}")
            if g2.body != served:
                self.violation("fixpoint", "bytes-changed", f"{desc}: re-upload of the served bytes changed the served bytes")
            if tag2 != tag1:
                self.violation("fixpoint", "ctag-changed", f"{desc}: re-upload of the served bytes changed the collection tag {tag1} -> {tag2}")
            if n2 != n1:
                self.violation("fixpoint", "new-commit", f"{desc}: re-upload of the served bytes added {n2 - n1} commit(s)")
            self.stats["c14:valid"] += 1
            if served != body:
                self.stats["c14:normalised"] += 1
                self.c14_keys = getattr(self, "c14_keys", set())
                self.c14_keys.add(hashlib.sha1(body).hexdigest())
        else:
            if ack:
                self.violation("valid", f"invalid-body-accepted:{st.get('klass')}", f"{desc}: an invalid body was acknowledged with {r.status}; body {body[:300]!r}")
            g = self.req(fe, "GET", path, None, None)
            if before is None:
                if g.status != 404:
                    self.violation("valid", "invalid-body-stored", f"{desc}: refused, but GET answers {g.status}")
            elif g.status != 200 or not same_body(before.raw, g.body, name, before):
                self.violation("valid", "invalid-body-damaged-previous", f"{desc}: refused, but the previous content is no longer served ({g.status})")
            tag1 = self.read_tags(coll, fe)[P_CTAG]
            n1 = self.commit_count(coll)
            if tag1 != tag0 or n1 != n0:
                self.violation("valid", "refused-upload-changed-collection", f"{desc}: refused, but tag {tag0}->{tag1}, commits {n0}->{n1}")
            self.stats["c14:invalid:" + str(st.get("klass"))] += 1
            self.c14_keys = getattr(self, "c14_keys", set())
            self.c14_keys.add("inv:" + hashlib.sha1(body).hexdigest())
        return {coll}


    # -- C02: a read that overlaps a write (the harness owns the interleaving) ----------
    def op_RACE(self, st):
        """GET (or multiget) of a member through the aiohttp front end; at the moment the handler
        suspends to read the body (to_thread in ObjectResource.get_file) a complete PUT of the same
        member is executed through the WSGI front end; then the read resumes.  The (ETag, body) pair
        the reader receives must be a consistent snapshot: old/old or new/new."""
        import asyncio

        from xandikos import web

        coll = SLOTS[st["coll"]]
        name = st["name"]
        mc = self.model.colls.get(coll)
        self.last = {"op": "RACE", "ack": False, "coll": coll, "name": name}
        if mc is None or name not in mc.members:
            return set()
        body = body_of(st)
        path = self.member_path(coll, name)
        real = web.to_thread
        state = {"armed": True, "put": None}
        runner = self

        async def wrapper(func, *a, **kw):
            if state["armed"] and getattr(func, "__name__", "") == "get_file":
                state["armed"] = False
                state["put"] = await asyncio.to_thread(lambda: runner.req("wsgi", "PUT", path, [("Content-Type", st["ctype"])], body))
            return await real(func, *a, **kw)

        web.to_thread = wrapper
        try:
            if st.get("reader") == "multiget" and mc.kind in ("calendar", "addressbook"):
                ans = self.mg_request("aio", coll, mc.kind, [self.world.url(path)])
                a = (ans.get(urllib.parse.unquote(self.world.url(path))) or [None])[0]
                got_etag = a["etag"] if a else None
                got_body = a["data"].encode("utf-8").replace(b"\r\n", b"\n") if a and a["data"] is not None else None
                norm = True
            else:
                r = self.req("aio", "GET", path, None, None)
                got_etag, got_body, norm = r.header("ETag"), r.body, False
        finally:
            web.to_thread = real
        pr = state["put"]
        if pr is None:
            self.stats["race:not-triggered"] += 1
            return {coll}
        self.stats["race:triggered"] += 1
        if dav.acknowledged(pr):
            old = mc.members[name]
            mc.members[name] = MMember(body, st["ctype"], old.ver + 1)
            self.coll_writes[coll] += 1
            self.last["ack"] = True
            self.stats["ack:PUT"] += 1
            self.stats["ack:overwrite"] += 1
            new_etag = pr.header("ETag")
            g = self.req("wsgi", "GET", path, None, None)
            new_body = g.body
            old_etag = self.cur_etag.get((coll, name))
            if got_etag is not None and got_body is not None and old_etag != new_etag:
                cmp_new = new_body.replace(b"\r\n", b"\n") if norm else new_body
                if got_etag == old_etag and got_body == cmp_new and cmp_new != (b"" if norm else b""):
                    # the old ETag was served with the new bytes
                    prev = self.seen_etag_body[coll + "/" + name].get(old_etag)
                    if prev is None or prev != hashlib.sha1(new_body).hexdigest():
                        self.violation("etag-strong", "race:old-etag-with-new-body", f"{st.get('reader', 'get')} of {coll}/{name} overlapped by a PUT: answered ETag {got_etag} (the old one) with the new body")
                if got_etag == new_etag and got_body != cmp_new:
                    self.violation("etag-strong", "race:new-etag-with-old-body", f"{st.get('reader', 'get')} of {coll}/{name} overlapped by a PUT: answered the new ETag {got_etag} with a body that is not the new one")
            self.stats["race:checked"] += 1
        return {coll}

    # -- the content audit (C01 oracle) ---------------------------------------
    LIST_PROPS = [P_ETAG, P_RT]

    def listing(self, coll, fe):
        """PROPFIND Depth 1 -> (members {name: etag}, subcollections {name}) or None if 404."""
        r = self.req(fe, "PROPFIND", coll + "/", [("Depth", "1"), dav.XML_CT], dav.propfind_body(self.LIST_PROPS))
        if r.status == 404:
            return None
        ms = dav.parse_ms(r)
        if ms is None:
            self.violation("listing", "propfind-failed", f"PROPFIND Depth 1 on {coll} answered {r.status} {r.exc or r.body[:200]!r}")
        if len(ms.responses) == 1 and ms.responses[0].status == 404:
            return None
        members = {}
        subs = set()
        first = True
        for resp in ms.responses:
            if first:
                first = False
                # the collection's own entity tag (conditional requests on collections refer to it)
                et = resp.prop_text(P_ETAG)
                if et:
                    self.cur_etag[(coll, None)] = et
                    if not self.etag_hist[coll] or self.etag_hist[coll][-1] != et:
                        self.etag_hist[coll].append(et)
                continue
            n = name_from_href(resp.href)
            rts = resp.resourcetypes()
            if rts and RT_COLL in rts or (resp.href or "").endswith("/"):
                if n in subs:
                    self.violation("listing", "duplicate-entry", f"{coll}: sub-collection {n!r} listed twice")
                subs.add(n)
            else:
                if n in members:
                    self.violation("listing", "duplicate-entry", f"{coll}: member {n!r} listed twice")
                members[n] = resp.prop_text(P_ETAG)
        return members, subs

    def audit(self, touched, full=False, fe="wsgi", step=None):
        model = self.model
        for slot, coll in SLOTS.items():
            mc = model.colls.get(coll)
            if mc is None:
                # must be absent
                if coll in touched or full:
                    parent = posixpath.dirname(coll)
                    if parent in model.colls or parent == "/user":
                        r = self.req(fe, "GET", coll + "/", None, None)
                        if r.status != 404:
                            self.violation("content", "ghost-collection", f"GET {coll}/ answered {r.status} but the collection should not exist")
                continue
            lst = self.listing(coll, fe)
            if lst is None:
                self.violation("content", "collection-missing", f"collection {coll} should exist but PROPFIND says 404")
            members, subs = lst
            exp_names = set(mc.members)
            if set(members) != exp_names:
                self.violation("listing", "membership", f"{coll}: listed {sorted(members)} expected {sorted(exp_names)}")
            exp_subs = {posixpath.basename(p) for p in model.children(coll)}
            if subs != exp_subs:
                self.violation("listing", "subcollections", f"{coll}: listed sub-collections {sorted(subs)} expected {sorted(exp_subs)}")
            for name, m in mc.members.items():
                etag = members[name]
                key = (coll, name)
                path = coll + "/" + name
                if coll in touched or full:
                    r = self.req(fe, "GET", self.member_path(coll, name), None, None)
                    if r.status != 200:
                        self.violation("content", "get-failed", f"GET {path} answered {r.status} {r.exc or ''} but the member exists")
                    if not same_body(m.raw, r.body, name, m):
                        self.violation("content", "body-mismatch", f"GET {path}: served {r.body[:300]!r} expected {m.raw[:300]!r}")
                    get_etag = r.header("ETag")
                    if get_etag != etag:
                        self.violation("etag-views", "get-vs-propfind", f"{path}: GET ETag {get_etag} PROPFIND getetag {etag}")
                    sha = hashlib.sha1(r.body).hexdigest()
                    self.record_etag_body(path, etag, sha)
                else:
                    if key in self.cur_etag and self.cur_etag[key] != etag:
                        self.violation("content", "untouched-member-changed", f"{path}: ETag changed {self.cur_etag[key]} -> {etag} by a step that did not touch {coll}")
                if not self.etag_hist[path] or self.etag_hist[path][-1] != etag:
                    self.etag_hist[path].append(etag)
                self.cur_etag[key] = etag
            for key in [k for k in self.cur_etag if k[0] == coll and k[1] is not None and k[1] not in mc.members]:
                del self.cur_etag[key]
        for key in [k for k in self.cur_etag if k[0] not in model.colls]:
            del self.cur_etag[key]
        # the touched path must be absent if the model says so
        if step is not None and step.get("op") == "LOCKED":
            step = step["inner"]
        if step is not None and step.get("name") is not None and step["op"] in ("PUT", "DELETE", "GET"):
            coll = SLOTS[step["coll"]]
            mc = model.colls.get(coll)
            if mc is None or step["name"] not in mc.members:
                parent_ok = mc is not None
                r = self.req(fe, "GET", self.member_path(coll, step["name"]), None, None)
                if r.status != 404 and not (r.status >= 500 and not parent_ok):
                    self.violation("content", "ghost-member", f"GET {coll}/{step['name']} answered {r.status} but the member should not exist")
        self.stats["audits"] += 1

    def record_etag_body(self, path, etag, sha):
        """C02: ETag <-> bytes must be a bijection per path over the history."""
        eb = self.seen_etag_body[path]
        be = self.seen_body_etag[path]
        if etag in eb and eb[etag] != sha:
            self.violation("etag-strong", "same-etag-different-bytes", f"{path}: ETag {etag} served with two different bodies")
        if sha in be and be[sha] != etag:
            self.violation("etag-strong", "same-bytes-different-etag", f"{path}: identical bytes served with ETags {be[sha]} and {etag}")
        eb[etag] = sha
        be[sha] = etag

    def final(self):
        self.audit(set(self.model.colls), full=True, fe="wsgi")
        self.audit(set(self.model.colls), full=True, fe="aio") if self.cfg.get("final_aio", True) else None


def run_program(program, observers=(), setup=None):
    """Execute; returns dict(ok, violation, stats, notes)."""
    r = Runner(program, observers)
    if setup:
        setup(r)
    out = {"ok": True, "violation": None}
    try:
        r.run()
    except Violation as v:
        out["ok"] = False
        out["violation"] = {"oracle": v.oracle, "sig": v.sig, "detail": v.detail, "step": r.step_no}
    out["stats"] = dict(r.stats)
    out["notes"] = r.notes
    out["known"] = dict(r.known)
    out["runner"] = r
    return out


def program_hash(program):
    return hashlib.sha1(json.dumps(program, sort_keys=True).encode()).hexdigest()
