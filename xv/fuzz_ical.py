"""atheris fuzz target for C14: ICalendarFile.validate()/normalized().

Usage: python -m xv.fuzz_ical OUTDIR [libFuzzer args...]
The oracle is inside the target: whatever validate() accepts must re-validate
and be a fixed point of normalisation.  Failures are bucketed and written to
OUTDIR/findings/<bucket>.bin (first input of each bucket); the campaign goes on.
"""
from . import env  # noqa: F401

import hashlib
import json
import os
import sys
import traceback

import atheris

with atheris.instrument_imports(include=["icalendar", "xandikos"]):
    from xandikos.icalendar import ICalendarFile
    from xandikos.store import InvalidFileContents

from . import icalref

SKELETONS = [
    b"BEGIN:VCALENDAR\r\nVERSION:2.0\r\nPRODID:-//x//EN\r\nBEGIN:VEVENT\r\nUID:u\r\nDTSTART:20200101T000000Z\r\nSUMMARY:s\r\n@@\r\nEND:VEVENT\r\nEND:VCALENDAR\r\n",
    b"BEGIN:VCALENDAR\r\nVERSION:2.0\r\nPRODID:-//x//EN\r\nBEGIN:VTODO\r\nUID:u\r\nDUE;VALUE=DATE:20200101\r\n@@\r\nBEGIN:VALARM\r\nACTION:DISPLAY\r\nTRIGGER:-PT5M\r\n@@\r\nEND:VALARM\r\nEND:VTODO\r\nEND:VCALENDAR\r\n",
    b"BEGIN:VCALENDAR\r\nVERSION:2.0\r\nPRODID:-//x//EN\r\n@@\r\nBEGIN:VJOURNAL\r\nUID:u\r\n@@\r\nEND:VJOURNAL\r\nEND:VCALENDAR\r\n",
    b"BEGIN:VCALENDAR\r\nVERSION:2.0\r\nPRODID:-//x//EN\r\nBEGIN:VTIMEZONE\r\nTZID:Europe/Amsterdam\r\nBEGIN:STANDARD\r\nDTSTART:19701025T030000\r\nTZOFFSETFROM:+0200\r\nTZOFFSETTO:+0100\r\n@@\r\nEND:STANDARD\r\nEND:VTIMEZONE\r\nBEGIN:VEVENT\r\nUID:u\r\nDTSTART;TZID=Europe/Amsterdam:20200101T100000\r\n@@\r\nEND:VEVENT\r\nEND:VCALENDAR\r\n",
    b"BEGIN:VCALENDAR\nVERSION:2.0\nPRODID:x\nBEGIN:VFREEBUSY\nUID:u\nDTSTART:20200101T000000Z\nDTEND:20200102T000000Z\n@@\nEND:VFREEBUSY\nEND:VCALENDAR\n",
    b"@@",
]
NAMES = [b"SUMMARY", b"DESCRIPTION", b"ATTENDEE", b"RRULE", b"EXDATE", b"DTEND", b"DURATION", b"CATEGORIES", b"X-FOO", b"GEO", b"ORGANIZER", b"RDATE", b"COMMENT", b"TRIGGER", b"CREATED", b"SEQUENCE", b"LOCATION", b"ATTACH", b"FREEBUSY", b"RECURRENCE-ID", b"BEGIN", b"END"]

OUT = None
STATS = {"execs": 0, "invalid": 0, "accepted": 0, "fixed": 0, "crash_in_validate": 0, "independent_parser_rejects": 0}
BUCKETS = {}


def bucket(kind, exc, data):
    where = ""
    if exc is not None:
        for fr in reversed(traceback.extract_tb(exc.__traceback__)):
            if "/icalendar/" in fr.filename or "/xandikos/" in fr.filename:
                where = f"{os.path.basename(fr.filename)}:{fr.name}"
                break
        key = f"{kind}:{type(exc).__name__}:{where}"
    else:
        key = kind
    if key not in BUCKETS:
        BUCKETS[key] = 0
        os.makedirs(os.path.join(OUT, "findings"), exist_ok=True)
        with open(os.path.join(OUT, "findings", hashlib.sha1(key.encode()).hexdigest()[:12] + ".bin"), "wb") as f:
            f.write(data)
    BUCKETS[key] += 1


def build(fdp):
    sk = SKELETONS[fdp.ConsumeIntInRange(0, len(SKELETONS) - 1)]
    parts = sk.split(b"@@")
    out = parts[0]
    for p in parts[1:]:
        n = fdp.ConsumeIntInRange(0, 3)
        lines = []
        for _ in range(n):
            mode = fdp.ConsumeIntInRange(0, 3)
            if mode == 0:
                lines.append(fdp.ConsumeBytes(fdp.ConsumeIntInRange(0, 60)))
            else:
                name = NAMES[fdp.ConsumeIntInRange(0, len(NAMES) - 1)]
                params = b""
                if mode == 2:
                    params = b";" + fdp.ConsumeBytes(fdp.ConsumeIntInRange(0, 20))
                lines.append(name + params + b":" + fdp.ConsumeBytes(fdp.ConsumeIntInRange(0, 40)))
        out += b"\r\n".join(lines) + p
    return out


def dump():
    with open(os.path.join(OUT, "summary.json.tmp"), "w") as f:
        json.dump({"stats": STATS, "buckets": BUCKETS}, f)
    os.replace(os.path.join(OUT, "summary.json.tmp"), os.path.join(OUT, "summary.json"))


def one(body):
    STATS["execs"] += 1
    if STATS["execs"] % 250 == 0:
        dump()  # atheris exits without running atexit/finally handlers
    f = ICalendarFile([body], "text/calendar")
    try:
        f.validate()
    except InvalidFileContents:
        STATS["invalid"] += 1
        return
    except Exception as e:  # refusal by crash: nothing is stored; recorded, not a violation
        STATS["crash_in_validate"] += 1
        bucket("crash-in-validate(recorded)", e, body)
        return
    try:
        n1 = b"".join(f.normalized())
    except Exception as e:
        STATS["crash_in_validate"] += 1
        bucket("crash-in-normalized(recorded)", e, body)
        return
    STATS["accepted"] += 1
    f2 = ICalendarFile([n1], "text/calendar")
    try:
        f2.validate()
        n2 = b"".join(f2.normalized())
    except Exception as e:
        bucket("VIOLATION:stored-form-not-valid", e, body)
        return
    if n2 != n1:
        bucket("VIOLATION:stored-form-not-fixed-point", None, body)
        return
    STATS["fixed"] += 1
    try:
        icalref.parse(n1)
    except icalref.ParseError:
        STATS["independent_parser_rejects"] += 1


def TestOneInput(data):
    fdp = atheris.FuzzedDataProvider(data)
    if fdp.ConsumeBool():
        body = fdp.ConsumeBytes(4096)
    else:
        body = build(fdp)
    one(body)


def main():
    global OUT
    OUT = sys.argv[1]
    os.makedirs(OUT, exist_ok=True)
    args = [sys.argv[0]] + sys.argv[2:]
    atheris.Setup(args, TestOneInput)
    atheris.Fuzz()


if __name__ == "__main__":
    main()
