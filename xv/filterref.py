"""Reference evaluators for CalDAV (RFC 4791 9.7 / 9.9) and CardDAV (RFC 6352 10.5)
filters over xv.icalref trees.  Written from the RFCs; shares no code with xandikos.

A filter is plain JSON so that it can be put into replay files:

comp-filter: {"name": str, "is_not_defined": bool, "time_range": [start|None, end|None] | None,
              "props": [prop-filter], "comps": [comp-filter]}
prop-filter: {"name": str, "is_not_defined": bool, "time_range": ..., "text_match": tm | None,
              "params": [{"name": str, "is_not_defined": bool, "text_match": tm | None}]}
tm:          {"text": str, "collation": str | None, "negate": bool, "match_type": str (CardDAV only)}
Time-range bounds are UTC strings 'YYYYMMDDTHHMMSSZ'.
"""
import datetime as dt
import re
from xml.sax.saxutils import escape as xesc, quoteattr
from zoneinfo import ZoneInfo

from . import icalref

UTC = dt.timezone.utc
NEG_INF = dt.datetime(1, 1, 1, tzinfo=UTC)
POS_INF = dt.datetime(9999, 12, 31, 23, 59, 59, tzinfo=UTC)

# ---------------------------------------------------------------------------
# values


def parse_utc(s):
    return dt.datetime.strptime(s, "%Y%m%dT%H%M%SZ").replace(tzinfo=UTC)


def fmt_utc(d):
    return d.astimezone(UTC).strftime("%Y%m%dT%H%M%SZ")


def is_date_value(prop):
    v = prop.param("VALUE")
    if v and v[0].upper() == "DATE":
        return True
    return bool(re.fullmatch(r"\d{8}", prop.value.strip()))


def instant(prop, tz):
    """DATE / DATE-TIME property -> aware datetime.  DATE = 00:00 of that day; DATE and floating
    values live in the request's time zone `tz`; TZID values in the named zone."""
    v = prop.value.strip()
    if re.fullmatch(r"\d{8}", v):
        return dt.datetime.strptime(v, "%Y%m%d").replace(tzinfo=tz)
    if v.endswith("Z"):
        return parse_utc(v)
    naive = dt.datetime.strptime(v, "%Y%m%dT%H%M%S")
    tzid = prop.param("TZID")
    if tzid:
        return naive.replace(tzinfo=ZoneInfo(tzid[0]))
    return naive.replace(tzinfo=tz)


def parse_duration(s):
    m = re.fullmatch(r"([+-])?P(?:(\d+)W)?(?:(\d+)D)?(?:T(?:(\d+)H)?(?:(\d+)M)?(?:(\d+)S)?)?", s.strip())
    if not m:
        raise ValueError(s)
    sign = -1 if m.group(1) == "-" else 1
    w, d, h, mi, se = (int(x) if x else 0 for x in m.groups()[1:])
    return sign * dt.timedelta(weeks=w, days=d, hours=h, minutes=mi, seconds=se)


def add(a, delta):
    """aware datetime + timedelta in absolute time (RFC 5545 exact durations; days are nominal
    but the generated durations never cross a DST change of the zone they are used in ... to stay
    independent of that question the sum is taken on the wall clock, like the RFC's nominal days)."""
    return a + delta


# ---------------------------------------------------------------------------
# RFC 4791 section 9.9: the time-range tables, as data
# Each row: (presence pattern, condition).  Conditions are evaluated by eval_cond().

VEVENT_ROWS = [
    # DTEND, DURATION, DURATION>0, DTSTART is DATE-TIME
    (("Y", "N", "N", "*"), "start < DTEND and end > DTSTART"),
    (("N", "Y", "Y", "*"), "start < DTSTART+DURATION and end > DTSTART"),
    (("N", "Y", "N", "*"), "start <= DTSTART and end > DTSTART"),
    (("N", "N", "N", "Y"), "start <= DTSTART and end > DTSTART"),
    (("N", "N", "N", "N"), "start < DTSTART+P1D and end > DTSTART"),
]
VTODO_ROWS = [
    # DTSTART, DURATION, DUE, COMPLETED, CREATED
    (("Y", "Y", "N", "*", "*"), "start <= DTSTART+DURATION and (end > DTSTART or end >= DTSTART+DURATION)"),
    (("Y", "N", "Y", "*", "*"), "(start < DUE or start <= DTSTART) and (end > DTSTART or end >= DUE)"),
    (("Y", "N", "N", "*", "*"), "start <= DTSTART and end > DTSTART"),
    (("N", "N", "Y", "*", "*"), "start < DUE and end >= DUE"),
    (("N", "N", "N", "Y", "Y"), "(start <= CREATED or start <= COMPLETED) and (end >= CREATED or end >= COMPLETED)"),
    (("N", "N", "N", "Y", "N"), "start <= COMPLETED and end >= COMPLETED"),
    (("N", "N", "N", "N", "Y"), "end > CREATED"),
    (("N", "N", "N", "N", "N"), "True"),
]
VJOURNAL_ROWS = [
    # DTSTART, DTSTART is DATE-TIME
    (("Y", "Y"), "start <= DTSTART and end > DTSTART"),
    (("Y", "N"), "start < DTSTART+P1D and end > DTSTART"),
    (("N", "*"), "False"),
]
VFREEBUSY_ROWS = [
    # DTSTART and DTEND, FREEBUSY
    (("Y", "*"), "start <= DTEND and end > DTSTART"),
    (("N", "Y"), "any_period"),
    (("N", "N"), "False"),
]


def _yn(b):
    return "Y" if b else "N"


def _row(rows, pattern):
    for pat, cond in rows:
        if all(p == "*" or p == q for p, q in zip(pat, pattern)):
            return cond
    raise LookupError(f"no table row for {pattern}")


def eval_cond(cond, env):
    expr = cond.replace("DTSTART+DURATION", "DTSTART_DURATION").replace("DTSTART+P1D", "DTSTART_P1D")
    return bool(eval(expr, {"__builtins__": {}}, env))  # the strings above are the only inputs


def has_rrule(comp):
    return bool(comp.get("RRULE") or comp.get("RDATE"))


def component_overlaps(comp, start, end, tz):
    """RFC 4791 9.9 for a non-recurring component.  start/end: aware datetimes."""
    g = lambda n: comp.first(n)  # noqa: E731
    env = {"start": start, "end": end}
    name = comp.name
    if name == "VEVENT":
        ds = g("DTSTART")
        if ds is None:
            return False
        env["DTSTART"] = instant(ds, tz)
        de, du = g("DTEND"), g("DURATION")
        dur = parse_duration(du.value) if du else None
        if de:
            env["DTEND"] = instant(de, tz)
        if dur is not None:
            env["DTSTART_DURATION"] = add(env["DTSTART"], dur)
        env["DTSTART_P1D"] = add(env["DTSTART"], dt.timedelta(days=1))
        pat = (_yn(de), _yn(du and not de), _yn(du and not de and dur > dt.timedelta(0)), _yn(not is_date_value(ds)))
        if de:
            pat = ("Y", "N", "N", "*")
        elif not du:
            pat = ("N", "N", "N", _yn(not is_date_value(ds)))
        return eval_cond(_row(VEVENT_ROWS, pat), env)
    if name == "VTODO":
        ds, du, due, comp_, cre = g("DTSTART"), g("DURATION"), g("DUE"), g("COMPLETED"), g("CREATED")
        if ds:
            env["DTSTART"] = instant(ds, tz)
            if du:
                env["DTSTART_DURATION"] = add(env["DTSTART"], parse_duration(du.value))
        if due:
            env["DUE"] = instant(due, tz)
        if comp_:
            env["COMPLETED"] = instant(comp_, tz)
        if cre:
            env["CREATED"] = instant(cre, tz)
        if ds:
            pat = ("Y", _yn(du and not due), _yn(due and not du), "*", "*")
        elif due:
            pat = ("N", "N", "Y", "*", "*")
        else:
            pat = ("N", "N", "N", _yn(comp_), _yn(cre))
        return eval_cond(_row(VTODO_ROWS, pat), env)
    if name == "VJOURNAL":
        ds = g("DTSTART")
        if ds:
            env["DTSTART"] = instant(ds, tz)
            env["DTSTART_P1D"] = add(env["DTSTART"], dt.timedelta(days=1))
            pat = ("Y", _yn(not is_date_value(ds)))
        else:
            pat = ("N", "*")
        return eval_cond(_row(VJOURNAL_ROWS, pat), env)
    if name == "VFREEBUSY":
        ds, de = g("DTSTART"), g("DTEND")
        fbs = comp.get("FREEBUSY")
        if ds and de:
            env["DTSTART"] = instant(ds, tz)
            env["DTEND"] = instant(de, tz)
            return eval_cond(_row(VFREEBUSY_ROWS, ("Y", "*")), env)
        if fbs:
            for p in fbs:
                for per in p.value.split(","):
                    a, b = per.split("/")
                    pa = parse_utc(a)
                    pb = parse_utc(b) if b.endswith("Z") else add(pa, parse_duration(b))
                    if start < pb and end > pa:
                        return True
            return False
        return False
    raise NotImplementedError(name)


# ---------------------------------------------------------------------------
# text-match


def ascii_casemap(s):
    return "".join(chr(ord(c) - 32) if "a" <= c <= "z" else c for c in s)


def collate(collation, s):
    if collation in (None, "i;ascii-casemap"):
        return ascii_casemap(s)
    if collation == "i;octet":
        return s
    if collation == "i;unicode-casemap":
        return s.casefold()
    raise ValueError(collation)


def text_matches(tm, value, default_match_type="contains"):
    """-> True/False, or None when the verdict is not asserted (i;unicode-casemap pairs that differ
    only in the case of non-ASCII letters; RFC 5051 is documented as not fully implemented)."""
    coll = tm.get("collation")
    mt = tm.get("match_type") or default_match_type
    a, b = collate(coll, value), collate(coll, tm["text"])
    res = {"contains": b in a, "equals": a == b, "starts-with": a.startswith(b), "ends-with": a.endswith(b)}[mt]
    if coll == "i;unicode-casemap":
        a2, b2 = ascii_casemap(value), ascii_casemap(tm["text"])
        res2 = {"contains": b2 in a2, "equals": a2 == b2, "starts-with": a2.startswith(b2), "ends-with": a2.endswith(b2)}[mt]
        if res2 != res:
            return None
    return (not res) if tm.get("negate") else res


# "rfc" = the RFC's semantics.  "k1" = the semantics of known finding K1 (used only by its
# signature): text-match on CATEGORIES compares whole categories for equality, and text-match on
# values of unknown type (X- properties) compares the whole value for equality.
SEMANTICS = ["rfc"]
VTEXT_TYPED = {"SUMMARY", "DESCRIPTION", "LOCATION", "COMMENT", "CONTACT", "STATUS", "CLASS", "UID", "TZID", "TZNAME", "ACTION", "RELATED-TO", "RESOURCES", "TRANSP", "PRODID", "VERSION", "CALSCALE", "METHOD"}

TEXT_PROPS = {"SUMMARY", "DESCRIPTION", "LOCATION", "COMMENT", "CONTACT", "STATUS", "CLASS", "UID", "TZID", "TZNAME", "ACTION", "RELATED-TO", "RESOURCES", "CATEGORIES", "TRANSP"}


def prop_text(prop):
    if prop.name in TEXT_PROPS or prop.name.startswith("X-"):
        return icalref.unescape_text(prop.value)
    return prop.value


# ---------------------------------------------------------------------------
# CalDAV filter evaluation (9.7.1 - 9.7.5)


class Unasserted(Exception):
    pass


def _and(values):
    """Conjunction with None = unasserted."""
    out = True
    for v in values:
        if v is False:
            return False
        if v is None:
            out = None
    return out


def _or(values):
    out = False
    for v in values:
        if v is True:
            return True
        if v is None:
            out = None
    return out


def param_filter_matches(pf, prop):
    vals = prop.param(pf["name"])
    if pf.get("is_not_defined"):
        return vals is None
    if vals is None:
        return False
    tm = pf.get("text_match")
    if tm is None:
        return True
    return _or(text_matches(tm, v) for v in vals)


def prop_instance_matches(pf, prop, tz):
    checks = []
    tr = pf.get("time_range")
    if tr:
        s = parse_utc(tr[0]) if tr[0] else NEG_INF
        e = parse_utc(tr[1]) if tr[1] else POS_INF
        v = instant(prop, tz)
        # RFC 4791 leaves the boundary of a property time-range open: not asserted there
        checks.append(None if v in (s, e) else (s < v < e))
    tm = pf.get("text_match")
    if tm:
        if SEMANTICS[0] == "k1" and prop.name == "CATEGORIES":
            cats = [icalref.unescape_text(c) for c in icalref.split_unescaped(prop.value, ",")]
            r = _or(text_matches(dict(tm, negate=False, match_type="equals"), c) for c in cats)
            checks.append((not r) if (tm.get("negate") and r is not None) else r)
        elif SEMANTICS[0] == "k1" and prop.name.startswith("X-"):
            checks.append(text_matches(dict(tm, match_type="equals"), prop_text(prop)))
        elif prop.name == "CATEGORIES":
            cats = [icalref.unescape_text(c) for c in icalref.split_unescaped(prop.value, ",")]
            whole = text_matches(tm, prop_text(prop))
            percat = _or(text_matches(dict(tm, negate=False), c) for c in cats)
            if percat is not None and tm.get("negate"):
                percat = not percat
            checks.append(whole if whole == percat else ("cat", whole, percat))
        else:
            checks.append(text_matches(tm, prop_text(prop)))
    for par in pf.get("params", []):
        checks.append(param_filter_matches(par, prop))
    flat = []
    for c in checks:
        if isinstance(c, tuple):
            flat.append(None)  # whole-value vs per-category reading differ: not asserted
        else:
            flat.append(c)
    return _and(flat)


def prop_filter_matches(pf, comp, tz):
    props = comp.get(pf["name"])
    if pf.get("is_not_defined"):
        return not props
    if not props:
        return False
    return _or(prop_instance_matches(pf, p, tz) for p in props)


def comp_matches(cf, comp, tz):
    """Does this one component satisfy the comp-filter (name already equal)?"""
    checks = []
    tr = cf.get("time_range")
    if tr:
        s = parse_utc(tr[0]) if tr[0] else NEG_INF
        e = parse_utc(tr[1]) if tr[1] else POS_INF
        checks.append(component_overlaps(comp, s, e, tz))
    for pf in cf.get("props", []):
        checks.append(prop_filter_matches(pf, comp, tz))
    for sub in cf.get("comps", []):
        checks.append(comp_filter_matches(sub, comp.children, tz))
    return _and(checks)


def comp_filter_matches(cf, scope, tz):
    """scope: list of components in which the named component is looked for."""
    named = [c for c in scope if c.name == cf["name"].upper()]
    if cf.get("is_not_defined"):
        return not named
    if not named:
        return False
    return _or(comp_matches(cf, c, tz) for c in named)


def calendar_matches(flt, raw, tz):
    """flt: top-level comp-filter (name VCALENDAR).  -> True / False / None (unasserted)."""
    cal = icalref.parse_one(raw, "VCALENDAR")
    return comp_filter_matches(flt, [cal], tz)


# ---------------------------------------------------------------------------
# XML rendering


def _tm_xml(tm, ns="C"):
    attrs = ""
    if tm.get("collation"):
        attrs += f" collation={quoteattr(tm['collation'])}"
    if tm.get("negate"):
        attrs += ' negate-condition="yes"'
    if tm.get("match_type"):
        attrs += f" match-type={quoteattr(tm['match_type'])}"
    return f"<{ns}:text-match{attrs}>{xesc(tm['text'])}</{ns}:text-match>"


def _tr_xml(tr):
    attrs = ""
    if tr[0]:
        attrs += f' start="{tr[0]}"'
    if tr[1]:
        attrs += f' end="{tr[1]}"'
    return f"<C:time-range{attrs}/>"


def prop_filter_xml(pf):
    inner = ""
    if pf.get("is_not_defined"):
        inner += "<C:is-not-defined/>"
    if pf.get("time_range"):
        inner += _tr_xml(pf["time_range"])
    if pf.get("text_match"):
        inner += _tm_xml(pf["text_match"])
    for par in pf.get("params", []):
        pin = "<C:is-not-defined/>" if par.get("is_not_defined") else (_tm_xml(par["text_match"]) if par.get("text_match") else "")
        inner += f"<C:param-filter name={quoteattr(par['name'])}>{pin}</C:param-filter>"
    return f"<C:prop-filter name={quoteattr(pf['name'])}>{inner}</C:prop-filter>"


def comp_filter_xml(cf):
    inner = ""
    if cf.get("is_not_defined"):
        inner += "<C:is-not-defined/>"
    if cf.get("time_range"):
        inner += _tr_xml(cf["time_range"])
    for pf in cf.get("props", []):
        inner += prop_filter_xml(pf)
    for sub in cf.get("comps", []):
        inner += comp_filter_xml(sub)
    return f"<C:comp-filter name={quoteattr(cf['name'])}>{inner}</C:comp-filter>"


def filter_xml(flt):
    return "<C:filter>" + comp_filter_xml(flt) + "</C:filter>"


def timezone_text(tzid):
    return f"BEGIN:VCALENDAR\r\nVERSION:2.0\r\nPRODID:-//xv//EN\r\nBEGIN:VTIMEZONE\r\nTZID:{tzid}\r\nEND:VTIMEZONE\r\nEND:VCALENDAR\r\n"


# ---------------------------------------------------------------------------
# CardDAV (RFC 6352 10.5)


CARD_LIST_PROPS = {"ORG", "CATEGORIES"}


def _split_unescaped(value, sep):
    out, cur, i = [], "", 0
    while i < len(value):
        ch = value[i]
        if ch == "\\" and i + 1 < len(value):
            cur += value[i : i + 2]
            i += 2
            continue
        if ch == sep:
            out.append(cur)
            cur = ""
        else:
            cur += ch
        i += 1
    out.append(cur)
    return out


def card_prop_filter_matches(pf, card):
    props = card.get(pf["name"])
    if pf.get("is_not_defined"):
        return not props
    if not props:
        return False
    tms = pf.get("text_matches", [])
    pars = pf.get("params", [])
    if not tms and not pars:
        return True

    def tm_checks(p):
        if p.name not in CARD_LIST_PROPS:
            return [text_matches(tm, icalref.unescape_text(p.value), "contains") for tm in tms]
        # list-valued / structured properties: RFC 6352 does not say whether the text is the whole value or
        # each component; asserted only where every reading gives the same verdict
        readings = [[icalref.unescape_text(p.value)]]
        for sep in ";,":
            parts = [icalref.unescape_text(x) for x in _split_unescaped(p.value, sep)]
            readings.append(parts)
            if len(parts) > 1 and parts[-1] == "":
                readings.append(parts[:-1])  # a trailing separator may or may not open another (empty) component
        out = []
        for tm in tms:
            verdicts = {_or(text_matches(tm, v, "contains") for v in vals) for vals in readings}
            out.append(verdicts.pop() if len(verdicts) == 1 else None)
        return out

    def inst(p):
        checks = tm_checks(p)
        for par in pars:
            vals = p.param(par["name"])
            if par.get("is_not_defined"):
                checks.append(vals is None)
            elif vals is None:
                checks.append(False)
            elif par.get("text_match"):
                checks.append(_or(text_matches(par["text_match"], v, "contains") for v in vals))
            else:
                checks.append(True)
        return _and(checks)

    return _or(inst(p) for p in props)


def card_matches(flt, raw):
    """flt: {"test": "anyof"|"allof"|None, "props": [...]} -> True/False/None."""
    card = icalref.parse_one(raw, "VCARD")
    pfs = flt.get("props", [])
    if not pfs:
        return True
    vals = [card_prop_filter_matches(pf, card) for pf in pfs]
    if (flt.get("test") or "anyof") == "allof":
        return _and(vals)
    return _or(vals)


def card_filter_xml(flt):
    if flt is None:
        return ""
    attrs = f" test={quoteattr(flt['test'])}" if flt.get("test") else ""
    inner = ""
    for pf in flt.get("props", []):
        pin = ""
        if pf.get("is_not_defined"):
            pin += "<A:is-not-defined/>"
        for tm in pf.get("text_matches", []):
            pin += _tm_xml(tm, "A")
        for par in pf.get("params", []):
            ppin = "<A:is-not-defined/>" if par.get("is_not_defined") else (_tm_xml(par["text_match"], "A") if par.get("text_match") else "")
            pin += f"<A:param-filter name={quoteattr(par['name'])}>{ppin}</A:param-filter>"
        inner += f"<A:prop-filter name={quoteattr(pf['name'])}>{pin}</A:prop-filter>"
    return f"<A:filter{attrs}>{inner}</A:filter>"
