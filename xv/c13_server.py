"""Launcher for C13: runs `xandikos.__main__.main` with an audit hook that logs
every file-system event (event name + path arguments) to the fd in XV_AUDIT_FD."""
import os
import sys

REPO = os.environ.get("XV_REPO", "/repo")
sys.path.insert(0, REPO)
sys.dont_write_bytecode = True

FD = os.open(os.environ["XV_AUDIT_LOG"], os.O_WRONLY | os.O_CREAT | os.O_APPEND, 0o600)
EVENTS = {"open", "os.listdir", "os.scandir", "os.mkdir", "os.rename", "os.remove", "os.rmdir", "shutil.rmtree", "os.chmod", "os.truncate", "os.link", "os.symlink", "os.utime", "shutil.copyfile", "shutil.move", "os.chdir", "glob.glob"}


def hook(event, args):
    if event not in EVENTS:
        return
    try:
        paths = []
        for a in args[:2]:
            if isinstance(a, bytes):
                a = os.fsdecode(a)
            if isinstance(a, str):
                paths.append(a)
            elif isinstance(a, int) and event in ("os.listdir", "os.scandir"):
                paths.append(f"<fd {a}>")
        if event == "open" and len(args) > 1:
            mode = repr(args[1])
        else:
            mode = ""
        os.write(FD, (event + "\t" + "\t".join(paths) + "\t" + mode + "\n").encode("utf-8", "surrogateescape"))
    except Exception:
        pass


sys.addaudithook(hook)

import asyncio  # noqa: E402
import logging  # noqa: E402

logging.disable(logging.CRITICAL)
from xandikos.__main__ import main  # noqa: E402

sys.exit(asyncio.run(main(sys.argv[1:])))
