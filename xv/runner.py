"""Shared runner: sharded Hypothesis generation, collect-then-shrink,
known-finding handling, evidence and replay files."""
from . import env

import collections
import concurrent.futures
import hashlib
import json
import multiprocessing
import os
import time
import traceback

NSHARDS = int(os.environ.get("XV_SHARDS", "16"))
_OUT = os.environ.get("XV_OUT") or env.VERIF  # XV_OUT: scratch output dir for sensitivity runs
EVIDENCE_DIR = os.path.join(_OUT, "evidence")
REPLAY_DIR = os.path.join(_OUT, "replays")
KNOWN_FILE = os.path.join(env.VERIF, "known_findings.json")


class CheckResult:
    def __init__(self, prop, tier, seed, level="exploration"):
        self.prop = prop
        self.tier = tier
        self.seed = seed
        self.level = level
        self.evaluations = 0
        self.nontrivial = set()
        self.rule = ""
        self.samples = []
        self.extra = {}
        self.assumptions = []
        self.violations = []  # dicts: {sig, detail, replay(obj)}
        self.known = collections.Counter()  # finding id -> reproductions
        self.errors = []  # harness errors -> exit 2
        self.exhaustive = None
        self.t0 = time.time()

    def add_violation(self, sig, detail, replay):
        self.violations.append({"sig": sig, "detail": detail, "replay": replay})


def load_known(prop):
    try:
        with open(KNOWN_FILE) as f:
            data = json.load(f)
    except FileNotFoundError:
        return []
    return [e for e in data.get("findings", []) if e.get("property") == prop and e.get("status") == "known"]


def jsonable(o):
    if isinstance(o, bytes):
        try:
            return o.decode("utf-8")
        except UnicodeDecodeError:
            return {"b64": __import__("base64").b64encode(o).decode()}
    if isinstance(o, (set, frozenset)):
        return sorted(jsonable(x) for x in o)
    if isinstance(o, dict):
        return {str(k): jsonable(v) for k, v in o.items()}
    if isinstance(o, (list, tuple)):
        return [jsonable(x) for x in o]
    if isinstance(o, (str, int, float, bool)) or o is None:
        return o
    return repr(o)


def finish(res):
    """Write evidence, replay files, print the verdict lines, return the exit code."""
    os.makedirs(EVIDENCE_DIR, exist_ok=True)
    os.makedirs(REPLAY_DIR, exist_ok=True)
    wall = time.time() - res.t0
    listed = load_known(res.prop)
    listed_ids = {e["id"] for e in listed}
    for fid in list(res.known):
        if fid not in listed_ids:
            # a signature fired for a finding that is not listed as known: that is a violation
            res.add_violation("unlisted:" + fid, f"behaviour of finding {fid} observed but it is not listed as known", {"finding": fid})
    coverage = {
        "evaluations": int(res.evaluations),
        "distinct_nontrivial": len(res.nontrivial),
        "rule": res.rule,
        "samples": jsonable(res.samples[:5]),
        "known_findings_reproduced": {k: int(v) for k, v in res.known.items()},
    }
    if res.exhaustive is not None:
        coverage["exhaustive"] = bool(res.exhaustive)
    coverage.update(jsonable(res.extra))
    ev = {
        "property_id": res.prop,
        "tier": res.tier,
        "seed": int(res.seed),
        "level": res.level,
        "coverage": coverage,
        "assumptions": res.assumptions,
        "wall_s": round(wall, 2),
        "violations": len(res.violations),
    }
    code = 0
    for e in listed:
        print(f"KNOWN-FINDING: property={res.prop} {e['id']}: {e['what']} (reproduced {res.known.get(e['id'], 0)}x in this run)")
    seen = set()
    for i, v in enumerate(res.violations):
        if v["sig"] in seen:
            continue
        seen.add(v["sig"])
        h = hashlib.sha1(json.dumps(jsonable(v["replay"]), sort_keys=True).encode()).hexdigest()[:10]
        path = os.path.join(REPLAY_DIR, f"{res.prop}-{h}.json")
        with open(path, "w") as f:
            json.dump({"property": res.prop, "sig": v["sig"], "detail": v["detail"], "replay": jsonable(v["replay"])}, f, indent=1, sort_keys=True)
        print(f"VIOLATION property={res.prop} replay={path}")
        print(f"  [{v['sig']}] {v['detail'][:1500]}")
        code = 1
    if code == 0 and res.errors:
        for e in res.errors[:10]:
            print(f"HARNESS-ERROR property={res.prop} {e[:2000]}")
        code = 2
    if code == 0 and (res.evaluations < 1 or len(res.nontrivial) < 2):
        print(f"INCONCLUSIVE property={res.prop}: evaluations={res.evaluations} distinct_nontrivial={len(res.nontrivial)} (vacuity guard)")
        code = 2
    with open(os.path.join(EVIDENCE_DIR, f"{res.prop}.json"), "w") as f:
        json.dump(ev, f, indent=1, sort_keys=True)
    print(f"{res.prop} tier={res.tier} seed={res.seed} evaluations={res.evaluations} distinct_nontrivial={len(res.nontrivial)} violations={len(seen)} wall={wall:.1f}s exit={code}")
    return code


# ---------------------------------------------------------------------------
# sharding


_KEPT_LOOPS = []


def fresh_event_loop():
    """Give this thread a new asyncio event loop and keep the old one alive but unused.  A loop created
    before a fork shares its epoll instance and wake-up socket with the children: a child that touches or
    closes its copy un-registers the parent's wake-up socket, after which the parent's loop never notices
    results coming from worker threads (xandikos' WSGI entry point would wait forever)."""
    import asyncio
    import warnings

    with warnings.catch_warnings():
        warnings.simplefilter("ignore")
        try:
            old = asyncio.get_event_loop_policy()._local._loop
        except Exception:
            old = None
        if old is not None:
            _KEPT_LOOPS.append(old)
        asyncio.set_event_loop(asyncio.new_event_loop())


def _shard_entry(args):
    fn, shard, kw = args
    if not os.environ.get("XV_INPROC") and NSHARDS != 1:
        fresh_event_loop()  # never the loop inherited from the parent
    try:
        return fn(shard=shard, **kw)
    except Exception:
        return {"error": f"shard {shard}: " + traceback.format_exc()}


def run_shards(fn, nshards=None, **kw):
    """Run fn(shard=i, **kw) in nshards processes; returns list of results."""
    nshards = nshards or NSHARDS
    if nshards == 1 or os.environ.get("XV_INPROC"):
        return [_shard_entry((fn, i, kw)) for i in range(nshards)]
    ctx = multiprocessing.get_context("fork")
    try:
        with concurrent.futures.ProcessPoolExecutor(max_workers=min(nshards, os.cpu_count() or 4), mp_context=ctx) as ex:
            return list(ex.map(_shard_entry, [(fn, i, kw) for i in range(nshards)]))
    finally:
        fresh_event_loop()  # whatever the children did to a shared loop, the parent continues with its own


# ---------------------------------------------------------------------------
# machine-based checks: generate programs, run, collect, shrink


def ddmin_steps(program, still_fails, keep_prefix=0, budget=120):
    """Delta-debug the step list; still_fails(program) -> bool."""
    steps = list(program["steps"])
    fixed = steps[:keep_prefix]
    rest = steps[keep_prefix:]
    n = 2
    runs = 0
    while len(rest) >= 1 and runs < budget:
        chunk = max(1, len(rest) // n)
        removed = False
        i = 0
        while i < len(rest) and runs < budget:
            cand = rest[:i] + rest[i + chunk :]
            runs += 1
            if still_fails({"config": program["config"], "steps": fixed + cand}):
                rest = cand
                removed = True
            else:
                i += chunk
        if not removed:
            if chunk == 1:
                break
            n = min(len(rest), n * 2)
        else:
            n = max(2, n - 1)
    return {"config": program["config"], "steps": fixed + rest}


def machine_shard(shard, seed, examples, strategy_factory, run_one, max_viol=4):
    """Generic Hypothesis shard: strategy_factory() -> strategy of cases;
    run_one(case) -> dict(ok, violation{sig,detail}, labels[list], nontrivial(bool), key, stats)."""
    from hypothesis import HealthCheck, Phase, given, settings
    from hypothesis import seed as hseed

    out = {
        "evaluations": 0,
        "nontrivial": set(),
        "labels": collections.Counter(),
        "stats": collections.Counter(),
        "violations": {},
        "samples": [],
        "known": collections.Counter(),
        "errors": [],
    }

    @settings(max_examples=examples, database=None, deadline=None, phases=[Phase.generate], suppress_health_check=list(HealthCheck), derandomize=False, report_multiple_bugs=False)
    @hseed(seed * 1000 + shard)
    @given(strategy_factory())
    def prop(case):
        try:
            r = run_one(case)
        except Exception:
            out["errors"].append(traceback.format_exc())
            return
        out["evaluations"] += 1
        for lab in r.get("labels", []):
            out["labels"][lab] += 1
        for k, v in (r.get("stats") or {}).items():
            if isinstance(v, int):
                out["stats"][k] += v
        for k, v in (r.get("known") or {}).items():
            out["known"][k] += v
        if r.get("nontrivial"):
            if r.get("keys"):
                out["nontrivial"].update(r["keys"])
            else:
                out["nontrivial"].add(r["key"])
            if len(out["samples"]) < 2:
                out["samples"].append(r.get("sample", case))
        if not r["ok"]:
            sig = r["violation"]["sig"]
            cur = out["violations"].get(sig)
            size = r.get("size", 0)
            if cur is None or size < cur[0]:
                if cur is not None or len(out["violations"]) < max_viol:
                    out["violations"][sig] = (size, r["violation"], case)

    try:
        prop()
    except Exception:
        out["errors"].append(traceback.format_exc())
    out["violations"] = {k: {"size": v[0], "violation": v[1], "case": v[2]} for k, v in out["violations"].items()}
    return out


def merge_machine(res, shard_results):
    """Fold shard results into a CheckResult; returns {sig: (violation, case)}."""
    labels = collections.Counter()
    stats = collections.Counter()
    viols = {}
    for sr in shard_results:
        if "error" in sr:
            res.errors.append(sr["error"])
            continue
        res.evaluations += sr["evaluations"]
        res.nontrivial |= sr["nontrivial"]
        labels.update(sr["labels"])
        stats.update(sr["stats"])
        res.known.update(sr["known"])
        res.errors.extend(sr["errors"])
        for s in sr["samples"]:
            if len(res.samples) < 4:
                res.samples.append(s)
        for sig, v in sr["violations"].items():
            if sig not in viols or v["size"] < viols[sig]["size"]:
                viols[sig] = v
    res.extra["labels"] = dict(labels)
    res.extra["stats"] = {k: v for k, v in stats.items() if not k.startswith("5xx:")}
    res.extra["server_errors"] = {k: v for k, v in stats.items() if k.startswith("5xx:")}
    return viols
