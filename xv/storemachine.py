"""Store-API histories run in lock-step on tree-git, bare-git (disk),
bare-git (memory) and vdir against one model (C01, C03, C06 store level)."""
from . import env  # noqa: F401

import collections
import os
import shutil
import tempfile

from hypothesis import strategies as st

from . import gen, icalref
from .machine import enc_body, body_of

BACKENDS = ["tree", "bare", "mem", "vdir"]


def open_store(kind, path, create=False):
    from xandikos.icalendar import ICalendarFile
    from xandikos.store.git import BareGitStore, GitStore, TreeGitStore
    from xandikos.store.vdir import VdirStore
    from xandikos.vcard import VCardFile

    if kind == "tree":
        s = TreeGitStore.create(path) if create else GitStore.open_from_path(path)
    elif kind == "bare":
        s = BareGitStore.create(path) if create else GitStore.open_from_path(path)
    elif kind == "mem":
        s = BareGitStore.create_memory()
    elif kind == "vdir":
        s = VdirStore.create(path) if create else VdirStore.open_from_path(path)
    else:
        raise ValueError(kind)
    s.load_extra_file_handler(ICalendarFile)
    s.load_extra_file_handler(VCardFile)
    return s


def outcome_class(exc):
    from xandikos.store import DuplicateUidError, InvalidETag, InvalidFileContents, LockedError, NoSuchItem

    if exc is None:
        return "ok"
    for cls, n in ((DuplicateUidError, "DuplicateUid"), (InvalidETag, "InvalidETag"), (InvalidFileContents, "InvalidFileContents"), (NoSuchItem, "NoSuchItem"), (LockedError, "Locked")):
        if isinstance(exc, cls):
            return n
    return "other:" + type(exc).__name__


@st.composite
def store_program(draw, min_steps=6, max_steps=25, etag_rate=3, uid_pool=None, with_cards=True, two_handles=False):
    names = [draw(gen.member_name(".ics", fancy=False)) for _ in range(2)] + [draw(gen.member_name(".ics", fancy=True)) for _ in range(2)]
    if draw(st.integers(0, 3)) == 0:
        # a name that differs from another one only in letter case is a different member
        stem = names[0][: -len(".ics")]
        names[1] = (stem.swapcase() if stem.swapcase() != stem else "X" + stem) + ".ics"
    if with_cards:
        names.append(draw(gen.member_name(".vcf", fancy=False)))
    bodies = [draw(gen.calendar_object(uid=draw(st.sampled_from(uid_pool)) if uid_pool else None)) for _ in range(draw(st.integers(3, 6)))]
    cards = [draw(gen.vcard()) for _ in range(2)]
    bad = [draw(gen.invalid_calendar())[1]]
    steps = []
    for _ in range(draw(st.integers(min_steps, max_steps))):
        op = draw(st.sampled_from(["put"] * 6 + ["delete"] * 3 + ["reopen", "put-invalid"]))
        name = draw(st.sampled_from(names))
        ek = "none"
        if draw(st.integers(0, etag_rate)) == 0:
            ek = draw(st.sampled_from(["current", "current", "stale", "other", "never"]))
        if op == "put":
            if name.endswith(".vcf"):
                raw = draw(st.sampled_from(cards))["raw"]
            else:
                raw = draw(st.sampled_from(bodies))["raw"]
            steps.append({"op": "put", "name": name, "body": enc_body(raw), "etag": ek})
        elif op == "put-invalid":
            steps.append({"op": "put", "name": name if name.endswith(".ics") else names[0], "body": enc_body(bad[0]), "etag": "none"})
        elif op == "delete":
            steps.append({"op": "delete", "name": name, "etag": ek})
        else:
            steps.append({"op": "reopen"})
        if two_handles and steps[-1]["op"] != "reopen" and draw(st.integers(0, 2)) == 0:
            # this call goes through a second store object opened on the same directory (another server
            # process): whatever each object remembers between calls, the answers are those of one history
            steps[-1]["h"] = 1
    return {"steps": steps}


class StoreViolation(Exception):
    def __init__(self, sig, detail):
        super().__init__(f"{sig}: {detail}")
        self.sig = sig
        self.detail = detail


def ctype_of(name):
    return "text/vcard" if name.endswith(".vcf") else "text/calendar"


def valid_body(name, raw):
    """Reference validity: parses as exactly one VCALENDAR / VCARD, no forbidden control characters."""
    try:
        c = icalref.parse_one(raw, "VCARD" if name.endswith(".vcf") else "VCALENDAR")
    except icalref.ParseError:
        return False
    for comp in c.walk():
        for p in comp.props:
            if "\x01" in p.value or "\x0c" in p.value:
                return False
    return True


def uid_of(name, raw):
    try:
        if name.endswith(".vcf"):
            return None  # vCard UIDs are not tracked by the stores (VCardFile has no get_uid)
        return icalref.calendar_uid(raw)
    except icalref.ParseError:
        return None


def run_store_program(program, backends=BACKENDS):
    """Returns dict(ok, violation, stats)."""
    stats = collections.Counter()
    scratch = tempfile.mkdtemp(prefix="xvs-", dir=env.scratch_root())
    stores = {}
    try:
        for b in backends:
            stores[b] = open_store(b, os.path.join(scratch, b), create=True)
        second = {}
        if any(st_.get("h") for st_ in program["steps"]):
            for b in backends:
                second[b] = open_store(b, os.path.join(scratch, b)) if b != "mem" else stores[b]
            stats["two-handles"] += 1
        model = {}  # name -> raw
        etags = {b: {} for b in backends}  # backend -> name -> etag
        hist = {b: collections.defaultdict(list) for b in backends}
        for i, step in enumerate(program["steps"]):
            if step["op"] == "reopen":
                for b in backends:
                    if b != "mem":
                        stores[b] = open_store(b, os.path.join(scratch, b))
                        if second:
                            second[b] = open_store(b, os.path.join(scratch, b))
                stats["reopen"] += 1
                _audit(i, stores, model, etags, hist, backends)
                continue
            name = step["name"]
            outs = {}
            for b in backends:
                cur = etags[b].get(name)
                ek = step.get("etag", "none")
                if ek == "none":
                    arg = None
                elif ek == "current":
                    arg = cur or "0" * 40
                elif ek == "stale":
                    olds = [e for e in hist[b][name] if e != cur]
                    arg = olds[0] if olds else "1" * 40
                elif ek == "other":
                    others = sorted(v for n, v in etags[b].items() if n != name)
                    arg = others[0] if others else "2" * 40
                else:
                    arg = "3" * 40
                exc = None
                ret = None
                sobj = second[b] if (step.get("h") and second) else stores[b]
                try:
                    if step["op"] == "put":
                        ret = sobj.import_one(name, ctype_of(name), [body_of(step)], replace_etag=arg)
                    else:
                        sobj.delete_one(name, etag=arg)
                except Exception as e:  # classified below
                    exc = e
                outs[b] = (outcome_class(exc), arg, cur, ret, exc)
            # model prediction
            if step["op"] == "put":
                raw = body_of(step)
                allowed = set()
                if not valid_body(name, raw):
                    allowed = {"InvalidFileContents"}
                else:
                    uid = uid_of(name, raw)
                    conflict = uid is not None and any(n != name and uid_of(n, r) == uid for n, r in model.items())
                    if conflict:
                        allowed.add("DuplicateUid")
                    for b in backends:
                        pass
                    allowed_by_backend = {}
                    for b in backends:
                        cls, arg, cur, ret, exc = outs[b]
                        a = set(allowed)
                        if arg is not None and arg != cur:
                            a.add("InvalidETag")
                        if not a:
                            a = {"ok"}
                        allowed_by_backend[b] = a
                for b in backends:
                    cls, arg, cur, ret, exc = outs[b]
                    a = allowed if allowed == {"InvalidFileContents"} else allowed_by_backend[b]
                    if cls not in a:
                        raise StoreViolation(f"put-outcome:{b}:{cls}-not-{'/'.join(sorted(a))}", f"step {i} {b}: import_one({name!r}, replace_etag={arg!r}; current {cur!r}) -> {cls} ({exc!r}); the model allows {sorted(a)}")
                classes = {outs[b][0] for b in backends}
                if classes == {"ok"}:
                    model[name] = raw
                    stats["ok:put"] += 1
                    for b in backends:
                        et = outs[b][3][1]
                        etags[b][name] = et
                        if not hist[b][name] or hist[b][name][-1] != et:
                            hist[b][name].append(et)
                elif "ok" in classes:
                    raise StoreViolation("put-backends-disagree", f"step {i}: outcomes {dict((b, outs[b][0]) for b in backends)}")
                else:
                    stats["refused:put:" + "/".join(sorted(classes))] += 1
            else:
                for b in backends:
                    cls, arg, cur, ret, exc = outs[b]
                    if name not in model:
                        a = {"NoSuchItem"}
                    elif arg is not None and arg != cur:
                        a = {"InvalidETag"}
                    else:
                        a = {"ok"}
                    if cls not in a:
                        raise StoreViolation(f"delete-outcome:{b}:{cls}-not-{'/'.join(sorted(a))}", f"step {i} {b}: delete_one({name!r}, etag={arg!r}; current {cur!r}) -> {cls} ({exc!r}); the model allows {sorted(a)}")
                if outs[backends[0]][0] == "ok":
                    del model[name]
                    stats["ok:delete"] += 1
                    for b in backends:
                        etags[b].pop(name, None)
                else:
                    stats["refused:delete:" + outs[backends[0]][0]] += 1
            _audit(i, stores, model, etags, hist, backends)
        return {"ok": True, "violation": None, "stats": dict(stats)}
    except StoreViolation as v:
        return {"ok": False, "violation": {"oracle": "store", "sig": v.sig, "detail": v.detail}, "stats": dict(stats)}
    finally:
        shutil.rmtree(scratch, ignore_errors=True)


def _audit(i, stores, model, etags, hist, backends):
    for b in backends:
        s = stores[b]
        listed = {}
        for name, ctype, etag in s.iter_with_etag():
            if name in listed:
                raise StoreViolation(f"listing-duplicate:{b}", f"step {i} {b}: {name!r} listed twice")
            listed[name] = etag
        if set(listed) != set(model):
            raise StoreViolation(f"membership:{b}", f"step {i} {b}: iter_with_etag lists {sorted(listed)} expected {sorted(model)}")
        for name, raw in model.items():
            if listed[name] != etags[b].get(name):
                raise StoreViolation(f"etag-changed:{b}", f"step {i} {b}: {name!r} etag {listed[name]} but the last write returned {etags[b].get(name)}")
            got = b"".join(s.get_file(name).content)
            if got != raw:
                if name.endswith(".vcf") or not icalref.same_calendar(raw, got):
                    raise StoreViolation(f"content:{b}", f"step {i} {b}: {name!r} serves {got[:200]!r} expected {raw[:200]!r}")
