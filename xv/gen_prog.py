"""Hypothesis strategies for request histories (programs of the machine)."""
from hypothesis import strategies as st

from . import gen
from .machine import (
    P_ABCOLOR,
    P_ABDESC,
    P_CALCOLOR,
    P_CALDESC,
    P_CALORDER,
    P_COMMENT,
    P_DISPLAYNAME,
    P_REFRESH,
    enc_body,
)

FE = st.sampled_from(["wsgi", "aio"])
PREFIXES = ["/", "/dav/", "/a/b/", "/us/"]  # the last one shares characters with the first path segment behind it

DEFAULT_WEIGHTS = {
    "PUT": 10,
    "PUT-invalid": 2,
    "POST": 2,
    "DELETE": 4,
    "DELETE-coll": 1,
    "MKCOL": 2,
    "PROPPATCH": 2,
    "GET": 2,
    "PROPFIND": 1,
    "REPORT": 1,
    "RESTART": 2,
    "RECREATE": 1,
    "RACE": 0,
    "READ": 0,
    "CONDRACE": 0,
}

READ_PATHS = ["/", "/user", "/user/", "/user/calendars", "/user/calendars/", "/user/contacts/", "/user/calendars/c1/", "/user/calendars/c1", "/user/calendars/c2/", "/user/x1/", "/user/calendars/b1/", "/user/calendars/c1/n1/", "/user/contacts/a1/"]

# media types are case-insensitive, white space may precede the parameters, and there may be several parameters
CAL_CTYPES = ["text/calendar", "text/calendar", "text/calendar", "text/calendar; charset=utf-8", "text/calendar;charset=utf-8", "TEXT/CALENDAR", "Text/Calendar; charset=UTF-8", "text/calendar ; charset=utf-8", "text/calendar; charset=utf-8; component=VEVENT"]
CARD_CTYPES = ["text/vcard", "text/vcard", "text/vcard; charset=utf-8", "TEXT/VCARD", "text/vcard ; charset=utf-8", "text/vcard; charset=utf-8; version=4.0"]
CAL_SLOTS = ["c1", "c1", "c1", "c2", "b1", "n1", "h1", "x1"]
AB_SLOTS = ["a1", "a1", "h2"]


def weighted(weights):
    items = []
    for k, w in weights.items():
        items.extend([k] * int(w))
    return st.sampled_from(items)


@st.composite
def cond_spec(draw, allow_malformed=True):
    """Conditional header spec (resolved against run-time ETags by the interpreter)."""
    hdr = draw(st.sampled_from(["If-Match", "If-None-Match"]))
    kinds = ["current", "current", "stale", "stale", "other", "star", "never"]
    if allow_malformed:
        kinds += ["weak-current", "unquoted-current", "halfquoted-current", "empty"]
    n = draw(st.sampled_from([1, 1, 1, 2, 3]))
    items = []
    for _ in range(n):
        k = draw(st.sampled_from(kinds))
        it = {"kind": k}
        if k == "empty":
            it = {"kind": "literal", "v": draw(st.sampled_from(["", " "]))}
        if k in ("stale", "other"):
            it["k"] = draw(st.integers(0, 3))
        if k == "never":
            it["n"] = draw(st.integers(0, 2))
        items.append(it)
    return {"hdr": hdr, "items": items, "sep": draw(st.sampled_from([", ", ",", " , ", ",  "]))}


SIMPLE_TEXT = st.sampled_from(["Work", "My calendar", "privé", "a b c", "x"])


@st.composite
def prop_set(draw, kind_hint=None, values=None, bare_colours=False):
    vals = values or SIMPLE_TEXT
    name = draw(st.sampled_from([P_DISPLAYNAME, P_DISPLAYNAME, P_COMMENT, P_CALCOLOR, P_CALORDER, P_ABDESC, P_ABCOLOR, P_CALDESC, P_REFRESH]))
    if name in (P_CALCOLOR, P_ABCOLOR):
        v = draw(st.sampled_from(["#FF0000", "#00ff00", "#0000FFAA", "#123456"] + (["FF0000", "00ff00aa"] if bare_colours else [])))
    elif name == P_CALORDER:
        v = str(draw(st.integers(0, 99)))
    else:
        v = draw(vals)
    return [name, v]


@st.composite
def calendar_object_noncanonical(draw):
    """A legal calendar object in a spelling the server would not write itself (LF line ends, long unfolded
    line, lower-case names, unusual property order)."""
    o = draw(gen.calendar_object(style={"eol": draw(st.sampled_from(["\n", "\r\n"])), "fold": 0, "case": draw(st.sampled_from(["lower", "title", "upper"])), "shuffle": 1, "final_eol": draw(st.booleans())}))
    return o["raw"]


def wrap_locked(draw, steps, rate):
    """With probability 1/rate the write step just appended arrives while somebody else holds the
    repository's index lock or ref lock (LOCKED step)."""
    if rate and steps and steps[-1]["op"] in ("PUT", "DELETE", "PROPPATCH", "POST") and steps[-1].get("name", "") is not None and draw(st.integers(0, rate - 1)) == 0:
        inner = steps.pop()
        steps.append({"op": "LOCKED", "fe": inner["fe"], "afe": inner.get("afe", "wsgi"), "coll": inner["coll"], "inner": inner, "lock": draw(st.sampled_from(["index", "ref"]))})


@st.composite
def program(draw, weights=None, min_steps=8, max_steps=30, prefixes=PREFIXES, seed_bare=True, fancy_names=True, cond_rate=4, prop_values=None, restart_rate=None, focus=False, sparse_rate=0, locked_rate=0, retype=False, untyped_rate=0, bare_colours=False, bulk_plain=False):
    w = dict(DEFAULT_WEIGHTS)
    if weights:
        w.update(weights)
    cfg = {"prefix": draw(st.sampled_from(prefixes)), "seed": []}
    sparse = sparse_rate and draw(st.integers(0, sparse_rate - 1)) == 0
    if sparse:
        cfg["audit"] = "sparse"
    if seed_bare and draw(st.integers(0, 2)) > 0:
        cfg["seed"].append({"slot": "b1", "bare": True, "meta": draw(st.sampled_from(["config", "file"])), "kind": "calendar"})
    ics_names = [draw(gen.member_name(".ics", fancy=False)) for _ in range(2)]
    ics_names += [draw(gen.member_name(".ics", fancy=fancy_names)) for _ in range(2)]
    vcf_names = [draw(gen.member_name(".vcf", fancy=False)), draw(gen.member_name(".vcf", fancy=fancy_names))]
    other_names = [draw(st.sampled_from(["notes.txt", "blob.bin", "README", "x.json"]))]
    cal_bodies = [draw(gen.calendar_object()) for _ in range(draw(st.integers(3, 5)))]
    if draw(st.integers(0, 2)) == 0:
        cal_bodies.append(draw(gen.calendar_object(uid="")))  # a calendar object without UID is accepted too
    card_bodies = [draw(gen.vcard()) for _ in range(3)]
    bad_cal = [draw(gen.invalid_calendar()) for _ in range(2)]
    bad_card = [draw(gen.invalid_vcard())]
    steps = [
        {"op": "MKCOL", "fe": draw(FE), "coll": "c1", "kind": draw(st.sampled_from(["mkcalendar", "ext-calendar"]))},
        {"op": "MKCOL", "fe": draw(FE), "coll": "a1", "kind": "ext-addressbook"},
    ]
    if bulk_plain and draw(st.integers(0, 3)) == 0:
        # a collection made with a plain MKCOL (no type recorded) that holds several calendar objects
        bslot = draw(st.sampled_from(["c2", "x1"]))
        steps.append({"op": "MKCOL", "fe": draw(FE), "coll": bslot, "kind": "plain"})
        for i in range(draw(st.integers(4, 7))):
            steps.append({"op": "PUT", "fe": draw(FE), "afe": "wsgi", "coll": bslot, "name": f"bulk{i}.ics", "ctype": "text/calendar", "body": enc_body(draw(gen.calendar_object(uid=f"bulk-{i}"))["raw"]), "cond": []})
    n = draw(st.integers(min_steps, max_steps))
    opst = weighted(w)
    CAL = ["c1", "c1", "c1", "c1", "b1", "h1"] if focus else CAL_SLOTS
    AB = ["a1", "a1", "a1", "h2"] if focus else AB_SLOTS

    def maybe_cond():
        if cond_rate and draw(st.integers(0, cond_rate)) == 0:
            c = draw(cond_spec())
            if draw(st.integers(0, 3)) == 0:
                # both headers on one request (the conjunction decides)
                c2 = draw(cond_spec())
                c2["hdr"] = "If-None-Match" if c["hdr"] == "If-Match" else "If-Match"
                return [c, c2]
            return [c]
        return []

    for _ in range(n):
        if sparse and draw(st.integers(0, 7)) == 0:
            steps.append({"op": "AUDIT"})
        op = draw(opst)
        fe = draw(FE)
        afe = draw(st.sampled_from(["wsgi", "wsgi", "aio"]))
        if op in ("PUT", "PUT-invalid"):
            fam = draw(st.sampled_from(["cal", "cal", "cal", "card", "other"]))
            if fam == "cal":
                slot = draw(st.sampled_from(CAL))
                name = draw(st.sampled_from(ics_names))
                if op == "PUT":
                    raw = draw(st.sampled_from(cal_bodies))["raw"] if draw(st.integers(0, 3)) else draw(gen.calendar_object())["raw"]
                else:
                    raw = draw(st.sampled_from(bad_cal))[1]
                ctype = draw(st.sampled_from(CAL_CTYPES))
                if untyped_rate and op == "PUT" and draw(st.integers(0, untyped_rate - 1)) == 0:
                    # a client that does not say what it uploads (curl -T): the bytes are stored as they are
                    ctype = "application/octet-stream"
                    raw = draw(calendar_object_noncanonical())
            elif fam == "card":
                slot = draw(st.sampled_from(AB))
                name = draw(st.sampled_from(vcf_names))
                if op == "PUT":
                    raw = draw(st.sampled_from(card_bodies))["raw"]
                else:
                    raw = draw(st.sampled_from(bad_card))[1]
                ctype = draw(st.sampled_from(CARD_CTYPES))
            else:
                slot = draw(st.sampled_from(["x1", "h1", "c1"]))
                name = draw(st.sampled_from(other_names))
                raw = draw(st.sampled_from([b"hello\n", b"\x00\x01\xff binary", b"", b"second version"]))
                ctype = "application/octet-stream"
            if fam == "cal" and op == "PUT" and draw(st.integers(0, 11)) == 0:
                # the member first holds an object without UID, then one with a UID (and the other way round)
                pair = [draw(gen.calendar_object(uid=""))["raw"], raw]
                if draw(st.booleans()):
                    pair.reverse()
                steps.append({"op": "PUT", "fe": fe, "afe": afe, "coll": slot, "name": name, "ctype": "text/calendar", "body": enc_body(pair[0]), "cond": []})
                raw = pair[1]
            steps.append({"op": "PUT", "fe": fe, "afe": afe, "coll": slot, "name": name, "ctype": ctype, "body": enc_body(raw), "cond": maybe_cond()})
        elif op == "POST":
            fam = draw(st.sampled_from(["cal", "card"]))
            if fam == "cal":
                steps.append({"op": "POST", "fe": fe, "afe": afe, "coll": draw(st.sampled_from(CAL)), "ctype": "text/calendar", "body": enc_body(draw(st.sampled_from(cal_bodies + [{"raw": bad_cal[0][1]}]))["raw"]), "slash": draw(st.integers(0, 2)) > 0})
            else:
                steps.append({"op": "POST", "fe": fe, "afe": afe, "coll": draw(st.sampled_from(AB)), "ctype": "text/vcard", "body": enc_body(draw(st.sampled_from(card_bodies))["raw"]), "slash": draw(st.integers(0, 2)) > 0})
        elif op == "DELETE":
            fam = draw(st.sampled_from(["cal", "cal", "card", "other"]))
            if fam == "cal":
                slot, name = draw(st.sampled_from(CAL)), draw(st.sampled_from(ics_names))
            elif fam == "card":
                slot, name = draw(st.sampled_from(AB)), draw(st.sampled_from(vcf_names))
            else:
                slot, name = draw(st.sampled_from(["x1", "h1", "c1"])), draw(st.sampled_from(other_names))
            steps.append({"op": "DELETE", "fe": fe, "afe": afe, "coll": slot, "name": name, "cond": [c for c in maybe_cond() if c["hdr"] == "If-Match"]})
        elif op == "DELETE-coll":
            dc = {"op": "DELETE", "fe": fe, "afe": afe, "coll": draw(st.sampled_from(["c2", "n1", "x1", "c1", "a1", "b1"])), "name": None, "slash": draw(st.booleans())}
            if cond_rate and draw(st.integers(0, 3)) > 0:
                c = draw(cond_spec())
                c["hdr"] = "If-Match"
                dc["cond"] = [c]
            steps.append(dc)
        elif op == "MKCOL":
            kind = draw(st.sampled_from(["plain", "ext-calendar", "ext-addressbook", "ext-plain", "mkcalendar", "mkcalendar"]))
            props = []
            if kind != "plain" and draw(st.booleans()):
                props = [draw(prop_set(values=prop_values)) for _ in range(draw(st.integers(1, 2)))]
            steps.append({"op": "MKCOL", "fe": fe, "afe": afe, "coll": draw(st.sampled_from(["c2", "c2", "n1", "x1", "c1", "a1"])), "kind": kind, "props": props, "slash": draw(st.booleans())})
        elif op == "PROPPATCH":
            sets = [draw(prop_set(values=prop_values, bare_colours=bare_colours)) for _ in range(draw(st.integers(0, 2)))]
            removes = [draw(prop_set())[0]] if (not sets or draw(st.integers(0, 3)) == 0) else []
            steps.append({"op": "PROPPATCH", "fe": fe, "afe": afe, "coll": draw(st.sampled_from(["c1", "c1", "a1", "c2", "b1", "x1", "h1"])), "set": sets, "remove": removes})
        elif op == "GET":
            fam = draw(st.booleans())
            steps.append({"op": "GET", "method": draw(st.sampled_from(["GET", "HEAD"])), "fe": fe, "afe": afe, "coll": draw(st.sampled_from(CAL if fam else AB)), "name": draw(st.sampled_from(ics_names if fam else vcf_names)), "cond": [c for c in maybe_cond() if c["hdr"] == "If-None-Match"]})
        elif op == "PROPFIND":
            steps.append({"op": "PROPFIND", "fe": fe, "afe": afe, "coll": draw(st.sampled_from(list(CAL_SLOTS) + AB_SLOTS)), "depth": draw(st.sampled_from([0, 1])), "allprop": draw(st.booleans())})
        elif op == "REPORT":
            kind = draw(st.sampled_from(["multiget", "calendar-query", "addressbook-query", "sync", "sync"]))
            if kind == "addressbook-query":
                steps.append({"op": "REPORT", "fe": fe, "afe": afe, "coll": "a1", "kind": kind})
            elif kind == "multiget":
                fam = draw(st.booleans())
                steps.append({"op": "REPORT", "fe": fe, "afe": afe, "coll": "c1" if fam else "a1", "kind": kind, "names": draw(st.lists(st.sampled_from(ics_names if fam else vcf_names), max_size=3))})
            else:
                steps.append({"op": "REPORT", "fe": fe, "afe": afe, "coll": draw(st.sampled_from(["c1", "c2", "b1"])), "kind": kind})
        elif op == "RECREATE":
            # delete a collection and create one again at the same URL (stale per-path caches)
            slot = draw(st.sampled_from(["c1", "c1", "a1", "c2", "x1"]))
            kind = {"c1": "mkcalendar", "c2": "ext-calendar", "a1": "ext-addressbook", "x1": "plain"}[slot]
            if retype and draw(st.integers(0, 2)) == 0:
                # a collection of another type at the same URL
                kind = draw(st.sampled_from(["mkcalendar", "ext-calendar", "ext-addressbook", "ext-plain", "plain"]))
            steps.append({"op": "DELETE", "fe": fe, "afe": afe, "coll": slot, "name": None, "slash": draw(st.booleans())})
            steps.append({"op": "MKCOL", "fe": draw(FE), "afe": afe, "coll": slot, "kind": kind, "props": [], "slash": draw(st.booleans())})
        elif op == "RACE":
            fam = draw(st.integers(0, 3)) > 0
            if fam:
                steps.append({"op": "RACE", "fe": "aio", "afe": afe, "coll": draw(st.sampled_from(["c1", "c1", "b1", "h1"])), "name": draw(st.sampled_from(ics_names)), "ctype": "text/calendar", "body": enc_body(draw(st.sampled_from(cal_bodies))["raw"]), "reader": draw(st.sampled_from(["get", "get", "multiget"]))})
            else:
                steps.append({"op": "RACE", "fe": "aio", "afe": afe, "coll": "a1", "name": draw(st.sampled_from(vcf_names)), "ctype": "text/vcard", "body": enc_body(draw(st.sampled_from(card_bodies))["raw"]), "reader": draw(st.sampled_from(["get", "multiget"]))})
        elif op == "READ":
            kind = draw(st.sampled_from(["propfind", "propfind", "propfind", "get", "head", "options", "calendar-query", "sync", "multiget-empty"]))
            steps.append({"op": "READ", "fe": fe, "afe": afe, "kind": kind, "path": draw(st.sampled_from(READ_PATHS)), "depth": draw(st.sampled_from([0, 1, 1, "infinity"])), "allprop": draw(st.booleans())})
        elif op == "CONDRACE":
            n_ = draw(st.sampled_from(ics_names))
            steps.append({"op": "CONDRACE", "fe": fe, "afe": afe, "coll": draw(st.sampled_from(["c1", "c1", "b1"])), "name": n_, "ctype": "text/calendar", "method": draw(st.sampled_from(["PUT", "PUT", "DELETE"])), "body": enc_body(draw(st.sampled_from(cal_bodies))["raw"]), "other": enc_body(draw(gen.calendar_object())["raw"])})
        elif op == "RESTART":
            steps.append({"op": "RESTART"})
        wrap_locked(draw, steps, locked_rate)
    return {"config": cfg, "steps": steps}
