"""C17 — multiget returns, for each requested href, the current resource or 404."""
from hypothesis import strategies as st

from .. import gen, gen_prog
from ..machine import enc_body
from ._machine import MachineCheck

ID = "C17"
RULE = (
    "C01-style write histories on a calendar, an address book, a second calendar and an optional bare calendar; at generated points a calendar-/addressbook-multiget with 0-8 hrefs (duplicates allowed) drawn from: "
    "live members, deleted members, never-existing names, fully percent-encoded and minimally encoded spellings, spellings with a trailing slash / a dot segment / a doubled slash / 'x/..' that normalise to a live member, (sub-delimiters such as ';' left literal), '<name>;1'-style neighbours of live members, absolute URLs, the collection itself, members of other collections, members of the wrong kind, "
    "hrefs outside the route prefix incl. prefix look-alikes ('/davuser/...' for '/dav/'), empty and malformed hrefs; under every prefix and both front ends; in between, REPORTs that ask for a *part* of the data (comp/prop selections, novalue, expand, limit-recurrence-set, address-data props; via query or multiget). Oracle: answers are matched to requests by decoded path; "
    "every distinct requested path is answered exactly once; a live member of the right kind carries GET's ETag and body; everything else carries a 404 (response or data property) and no data; the same request "
    "reversed and each href alone give identical per-href answers. Non-trivial: a request mixing >=1 live, >=1 dead and >=1 out-of-namespace (or, under prefix '/', wrong-kind) href; distinct by (classes, href kinds, prefix, front end)."
)

KINDS = ["live", "live", "live", "trailing-slash", "dot-segment", "double-slash", "dotdot", "literal", "literal", "params-suffix", "dead", "never", "overencoded", "absolute", "collection", "other-coll", "other-coll", "lookalike", "noprefix", "empty", "malformed"]


@st.composite
def mg_program(draw):
    cfg = {"prefix": draw(st.sampled_from(["/", "/dav/", "/dav/", "/a/b/", "/us/", "/user/"])), "seed": []}  # the last two share characters / a whole segment with the paths behind them
    if draw(st.integers(0, 2)) == 0:
        cfg["seed"].append({"slot": "b1", "bare": True, "meta": "config", "kind": "calendar"})
    ics = [draw(gen.member_name(".ics", fancy=False)) for _ in range(2)] + [draw(gen.member_name(".ics", fancy=True)), draw(st.sampled_from(["semi;colon.ics", "a;b=c.ics", "x,y.ics", "plus+at@.ics", "q'(r)!.ics"]))]
    vcf = [draw(gen.member_name(".vcf", fancy=False)), draw(gen.member_name(".vcf", fancy=True))]
    bodies = {n: draw(gen.calendar_object(uid=gen.UID_POOL[i]))["raw"] for i, n in enumerate(ics)}
    cards = [draw(gen.vcard())["raw"] for _ in range(2)]
    steps = [
        {"op": "MKCOL", "fe": draw(gen_prog.FE), "coll": "c1", "kind": "mkcalendar"},
        {"op": "MKCOL", "fe": draw(gen_prog.FE), "coll": "a1", "kind": "ext-addressbook"},
        {"op": "MKCOL", "fe": draw(gen_prog.FE), "coll": "c2", "kind": "ext-calendar"},
    ]
    cals = ["c1", "c1", "c2"] + (["b1"] if cfg["seed"] else [])
    for _ in range(draw(st.integers(8, 20))):
        op = draw(st.sampled_from(["PUT"] * 5 + ["DELETE"] * 2 + ["MULTIGET"] * 5 + ["RESTART", "PUTX", "PARTIAL", "PARTIAL"]))
        fe = draw(gen_prog.FE)
        if op == "PUT":
            if draw(st.integers(0, 3)) == 0:
                steps.append({"op": "PUT", "fe": fe, "coll": "a1", "name": draw(st.sampled_from(vcf)), "ctype": "text/vcard", "body": enc_body(draw(st.sampled_from(cards))), "cond": []})
            else:
                n = draw(st.sampled_from(ics))
                steps.append({"op": "PUT", "fe": fe, "coll": draw(st.sampled_from(cals)), "name": n, "ctype": "text/calendar", "body": enc_body(bodies[n]), "cond": []})
        elif op == "PUTX":
            # a member of the wrong kind inside the collection
            if draw(st.booleans()):
                steps.append({"op": "PUT", "fe": fe, "coll": "c1", "name": vcf[0], "ctype": "text/vcard", "body": enc_body(cards[0]), "cond": []})
            else:
                steps.append({"op": "PUT", "fe": fe, "coll": "c1", "name": "notes.txt", "ctype": "application/octet-stream", "body": enc_body(b"plain text"), "cond": []})
        elif op == "DELETE":
            isab = draw(st.integers(0, 3)) == 0
            steps.append({"op": "DELETE", "fe": fe, "coll": "a1" if isab else draw(st.sampled_from(cals)), "name": draw(st.sampled_from(vcf if isab else ics)), "cond": []})
        elif op == "PARTIAL":
            # somebody asks for a part of the data first (comp/prop selection, expansion); the plain multigets that follow must not be affected
            coll = draw(st.sampled_from(["c1", "c1", "a1", "c2"]))
            steps.append({"op": "PARTIAL", "fe": fe, "coll": coll, "via": draw(st.sampled_from(["query", "multiget"])), "shape": draw(st.sampled_from(["card-fn", "card-version"] if coll == "a1" else ["summary", "summary", "version-only", "novalue", "expand", "limit"]))})
        elif op == "MULTIGET":
            coll = draw(st.sampled_from(["c1", "c1", "c1", "a1", "c2"] + (["b1"] if cfg["seed"] else [])))
            specs = [{"kind": draw(st.sampled_from(KINDS)), "k": draw(st.integers(0, 5))} for _ in range(draw(st.integers(0, 8)))]
            if specs and draw(st.integers(0, 5)) == 0:
                # a long request (clients ask for hundreds of hrefs at once) in which hrefs recur far apart
                total = draw(st.sampled_from([51, 64, 100, 101, 130]))
                specs = (specs * (total // len(specs) + 1))[:total]
            steps.append({"op": "MULTIGET", "fe": fe, "coll": coll, "hrefs": specs, "pools": {"names": (vcf if coll == "a1" else ics) + ["notes.txt", vcf[0]]}})
        else:
            steps.append({"op": "RESTART"})
    return {"config": cfg, "steps": steps}


def strategy():
    return mg_program()


def nontrivial(program, stt, r):
    return list(getattr(r, "mg_nontrivial", set()))


def labels(program, stt, r):
    return [k for k in stt if k.startswith("multiget:")]


CHECK = MachineCheck(ID, RULE, ("content",), strategy, nontrivial, labels=labels, quick=25, thorough=300, assumptions=["an existing calendar object in another collection counts as 'an existing resource of the right kind' (the server serves it)", "for empty/malformed hrefs only 'never data' is asserted; response matching by decoded path is not possible"])
main = CHECK.main
replay = CHECK.replay
