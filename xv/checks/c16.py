"""C16 — listings are complete and every href the server emits resolves."""
from hypothesis import strategies as st

from .. import gen, gen_prog
from ..machine import enc_body
from ._machine import MachineCheck

ID = "C16"
RULE = (
    "Generated collection layouts (calendar, address book, nested collection, second calendar, optional pre-seeded bare calendar) with 1-6 members whose names come from the URL-significant / non-ASCII "
    "grammar (space, %, #, ?, ;, +, &, =, @, ',', quote, !, $, ~, :, Latin-1 and non-Latin-1 letters, NFC/NFD, names that look percent-encoded such as '%41.ics' and 'a%20b.ics' next to 'a b.ics'), every member "
    "with distinct content; route prefix /, /dav/, /a/b/; both front ends; request URL with and without trailing slash. Probes: PROPFIND Depth 0/1 on collections, members and missing paths, PROPPATCH, "
    "multiget, query, sync, POST, href-valued properties. Oracle: exact response count, no duplicates, collection hrefs end in '/', and every emitted href - resolved against the request URL and sent "
    "back as is through the same front end - serves the ETag/bytes (members), displayname/resourcetype (collections), principal type or 404 it was emitted for. Non-trivial: an emitted member href whose "
    "name needs percent-encoding or is non-ASCII under a non-root prefix; distinct by (name class, prefix, front end, emitting request kind)."
)

CLASS_NAMES = ["a b", "100%", "x#y", "q?r=1", "semi;colon", "plus+plus", "café", "%41", "a%20b", "é-nfd", "日本", "co:lon", "amp&eq=", "at@", "q'uote", "~t!$,"]
PROBES = ["propfind0", "propfind1", "propfind1", "propfind-member", "proppatch", "multiget", "query", "sync", "post", "props"]


@st.composite
def href_program(draw):
    cfg = {"prefix": draw(st.sampled_from(gen_prog.PREFIXES + ["/dav/", "/a/b/"])), "seed": []}
    if draw(st.integers(0, 3)) == 0:
        cfg["seed"].append({"slot": "b1", "bare": True, "meta": "config", "kind": "calendar"})
    fe0 = draw(gen_prog.FE)
    steps = [
        {"op": "MKCOL", "fe": fe0, "coll": "c1", "kind": "mkcalendar"},
        {"op": "MKCOL", "fe": draw(gen_prog.FE), "coll": "a1", "kind": "ext-addressbook"},
    ]
    if draw(st.booleans()):
        steps.append({"op": "MKCOL", "fe": draw(gen_prog.FE), "coll": "n1", "kind": draw(st.sampled_from(["plain", "ext-calendar"]))})
    if draw(st.booleans()):
        steps.append({"op": "MKCOL", "fe": draw(gen_prog.FE), "coll": "c2", "kind": "ext-calendar"})
    stems = draw(st.lists(st.sampled_from(CLASS_NAMES), min_size=2, max_size=4, unique=True))
    stems += [draw(gen.member_name("", fancy=True)) for _ in range(draw(st.integers(0, 2)))]
    if draw(st.integers(0, 2)) == 0:
        stems += ["a%20b", "a b"]
    stems = list(dict.fromkeys(stems))
    uid = 0
    cal_colls = ["c1"] + (["b1"] if cfg["seed"] else []) + (["c2"] if any(s["coll"] == "c2" for s in steps) else [])
    for stem in stems:
        uid += 1
        coll = draw(st.sampled_from(cal_colls + ["a1"]))
        fe = draw(gen_prog.FE)
        if coll == "a1":
            card = draw(gen.vcard(uid=f"card{uid}"))
            raw = card["raw"].replace(b"FN:", b"FN:M%d " % uid, 1)
            steps.append({"op": "PUT", "fe": fe, "coll": coll, "name": stem + ".vcf", "ctype": "text/vcard", "body": enc_body(raw), "cond": []})
        else:
            obj = draw(gen.calendar_object(uid=f"uid-{uid}"))
            steps.append({"op": "PUT", "fe": fe, "coll": coll, "name": stem + ".ics", "ctype": "text/calendar", "body": enc_body(obj["raw"]), "cond": []})
    if draw(st.booleans()):
        cfg["audit"] = "sparse"  # nothing but the program's own requests reaches the server between probes
    n = draw(st.integers(5, 12))
    for _ in range(n):
        if draw(st.integers(0, 3)) == 0:
            # reshape the layout between probes: create / delete / re-create sub-collections and delete members
            k = draw(st.sampled_from(["mk", "mk", "del", "del", "delmember"]))
            slot = draw(st.sampled_from(["c2", "n1", "x1", "c1", "a1"]))
            if k == "mk":
                steps.append({"op": "MKCOL", "fe": draw(gen_prog.FE), "coll": slot, "kind": draw(st.sampled_from(["plain", "mkcalendar", "ext-calendar", "ext-addressbook"])), "props": []})
            elif k == "del":
                steps.append({"op": "DELETE", "fe": draw(gen_prog.FE), "coll": slot, "name": None, "slash": draw(st.booleans())})
            else:
                nm = [x["name"] for x in steps if x["op"] == "PUT"]
                if nm:
                    victim = draw(st.sampled_from([x for x in steps if x["op"] == "PUT"]))
                    steps.append({"op": "DELETE", "fe": draw(gen_prog.FE), "coll": victim["coll"], "name": victim["name"], "cond": []})
        what = draw(st.sampled_from(PROBES))
        coll = draw(st.sampled_from(["c1", "c1", "a1", "a1", "h1", "h2", "n1", "c2", "b1", "x1"]))
        stp = {"op": "HREFS", "fe": draw(gen_prog.FE), "coll": coll, "what": what, "slash": draw(st.sampled_from([True, True, False])), "k": draw(st.integers(0, 5)), "depth": draw(st.sampled_from([0, 1]))}
        if what == "post":
            uid += 1
            if coll in ("a1", "h2"):
                stp["coll"] = "a1"
                stp["ctype"] = "text/vcard"
                stp["body"] = enc_body(draw(gen.vcard(uid=f"card{uid}"))["raw"].replace(b"FN:", b"FN:P%d " % uid, 1))
            else:
                stp["coll"] = draw(st.sampled_from(cal_colls))
                stp["ctype"] = "text/calendar"
                stp["body"] = enc_body(draw(gen.calendar_object(uid=f"uid-{uid}"))["raw"])
        if what == "proppatch":
            stp["value"] = draw(st.sampled_from(["Work", "Privé", "a/b", "x y"]))
        steps.append(stp)
        if draw(st.integers(0, 9)) == 0:
            steps.append({"op": "RESTART"})
        if draw(st.integers(0, 7)) == 0:
            # the same application object answers under another route prefix
            steps.append({"op": "REMOUNT", "prefix": draw(st.sampled_from(gen_prog.PREFIXES))})
    return {"config": cfg, "steps": steps}


def strategy():
    return href_program()


def nontrivial(program, stt, r):
    return [str(k) for k in getattr(r, "href_classes", set()) if k[0] != "plain" and k[1] != "/"]


def labels(program, stt, r):
    return [k for k in stt if k.startswith("href:")]


CHECK = MachineCheck(ID, RULE, ("content",), strategy, nontrivial, labels=labels, quick=25, thorough=300, assumptions=["EMAIL is unset (no mailto: address set emitted)", "schedule-inbox-URL is checked only by C18 (layouts created with --defaults)", "members carry distinct content so that an href's target can be identified by ETag", "a bare principal is not a DAV collection: its href needs no trailing slash"])
main = CHECK.main
replay = CHECK.replay
