"""C07 — sync-collection reports exactly the changes since the given token."""
from hypothesis import strategies as st

from .. import gen, gen_prog
from ..machine import P_CALCOLOR, P_DISPLAYNAME, enc_body
from ._machine import MachineCheck

ID = "C07"
RULE = (
    "Generated histories of writes and deletes on one or two git collections (tree and bare; file and git-config metadata), with delete-and-recreate (same and different bytes), no-op rewrites, "
    "A->B->A reverts, PROPPATCH and restarts; after every step the sync-token and the member->ETag snapshot are recorded. At generated points sync-collection is issued for any earlier token, the "
    "current token, the empty token and foreign tokens (token of another collection, random 40-hex, blob id, head commit id, non-hex, over-long, non-ASCII, URI). Oracle: 200-responses = members "
    "whose ETag differs from / is absent in the snapshot (with the current ETag), 404-responses = members of the snapshot no longer present, nothing else; returned token = DAV:sync-token read "
    "immediately afterwards; replica(state i)+report = state j; foreign token => error and no token. Non-trivial: a report for an earlier token where, between the two states, some name was deleted "
    "and re-created or reverted to an earlier ETag; distinct by (i, j, per-name ETag sequence)."
)

FOREIGN = ["other-coll", "blob", "commit", "nonhex", "long", "nonascii", "uri", "random"]


@st.composite
def sync_program(draw):
    cfg = {"prefix": draw(st.sampled_from(gen_prog.PREFIXES)), "seed": []}
    bare = draw(st.booleans())
    if bare:
        cfg["seed"].append({"slot": "b1", "bare": True, "meta": draw(st.sampled_from(["config", "file"])), "kind": "calendar"})
    names = [draw(gen.member_name(".ics", fancy=False)) for _ in range(2)] + [draw(gen.member_name(".ics", fancy=True))]
    if draw(st.integers(0, 2)) == 0:
        # a member URL need not carry an extension (the media type comes with the request)
        names.append(draw(st.sampled_from(["6a1c0e3e-standup", "review.v2", "noext"])))
    vnames = [draw(gen.member_name(".vcf", fancy=False)) for _ in range(3)]
    # bodies are shared between names: identical content under several names (copied contacts,
    # an event moved to another name after its old holder changed) must be reported like any other change
    pool = []
    for i in range(3):
        uid = gen.UID_POOL[i]
        pool += [draw(gen.calendar_object(uid=uid))["raw"] for _ in range(draw(st.integers(1, 2)))]
    cards = [draw(gen.vcard())["raw"] for _ in range(3)]
    steps = [
        {"op": "MKCOL", "fe": draw(gen_prog.FE), "coll": "c1", "kind": "mkcalendar"},
        {"op": "MKCOL", "fe": "wsgi", "coll": "c2", "kind": "ext-calendar"},
        {"op": "MKCOL", "fe": "wsgi", "coll": "a1", "kind": "ext-addressbook"},
    ]
    colls = ["c1", "c1", "a1", "a1", "b1", "b1"] if bare else ["c1", "c1", "c1", "a1", "a1", "c2"]
    for _ in range(draw(st.integers(10, 28))):
        op = draw(st.sampled_from(["PUT"] * 7 + ["DELETE"] * 4 + ["SYNC"] * 6 + ["PROPPATCH", "RESTART", "RECREATE", "SYNCRACE"]))
        fe = draw(gen_prog.FE)
        coll = draw(st.sampled_from(colls))
        isab = coll == "a1"
        if op == "PUT":
            n = draw(st.sampled_from(vnames if isab else names))
            raw = draw(st.sampled_from(cards if isab else pool))
            steps.append({"op": "PUT", "fe": fe, "coll": coll, "name": n, "ctype": "text/vcard" if isab else "text/calendar", "body": enc_body(raw), "cond": []})
        elif op == "DELETE":
            steps.append({"op": "DELETE", "fe": fe, "coll": coll, "name": draw(st.sampled_from(vnames if isab else names)), "cond": []})
        elif op == "SYNC":
            k = draw(st.sampled_from(["issued", "issued", "issued", "issued", "current", "empty", "foreign", "foreign"]))
            spec = {"kind": k, "k": draw(st.integers(0, 40))}
            if k == "foreign":
                spec["f"] = draw(st.sampled_from(FOREIGN))
            steps.append({"op": "REPORT", "kind": "sync", "fe": fe, "coll": coll, "tok": spec, "props": draw(st.sampled_from(["etag", "etag", "etag", "ctype", "rt+ctype", "etag+ctype", "none"]))})
        elif op == "SYNCRACE":
            n = draw(st.sampled_from(vnames if isab else names))
            steps.append({"op": "SYNCRACE", "fe": fe, "coll": coll, "name": n, "ctype": "text/vcard" if isab else "text/calendar", "body": enc_body(draw(st.sampled_from(cards if isab else pool)))})
        elif op == "PROPPATCH":
            steps.append({"op": "PROPPATCH", "fe": fe, "coll": coll, "set": [[P_DISPLAYNAME, draw(st.sampled_from(["one", "two"]))]], "remove": []})
        elif op == "RECREATE":
            if coll == "c1":
                steps.append({"op": "DELETE", "fe": fe, "coll": "c1", "name": None, "slash": True})
                steps.append({"op": "MKCOL", "fe": fe, "coll": "c1", "kind": "mkcalendar"})
        else:
            steps.append({"op": "RESTART"})
        gen_prog.wrap_locked(draw, steps, 9)  # a refused write changes neither the token nor what is reported
    # query every recorded token at the end
    for c in sorted(set(colls)):
        for k in range(draw(st.integers(2, 6))):
            steps.append({"op": "REPORT", "kind": "sync", "fe": draw(gen_prog.FE), "coll": c, "tok": {"kind": "issued", "k": draw(st.integers(0, 40))}, "props": draw(st.sampled_from(["etag", "etag", "ctype", "rt+ctype", "none"]))})
    return {"config": cfg, "steps": steps}


def strategy():
    return sync_program()


def nontrivial(program, stt, r):
    return list(getattr(r, "sync_nontrivial", set()))


def labels(program, stt, r):
    return [k for k in stt if k.startswith("sync:")]


CHECK = MachineCheck(ID, RULE, ("content", "sync"), strategy, nontrivial, labels=labels, quick=20, thorough=300, assumptions=["requests without DAV:limit", "a 5xx answer to a foreign token is accepted as 'an error' and counted (sync:foreign-5xx)", "a token of a previous incarnation of a deleted and re-created collection counts as foreign unless the new incarnation issued the same value"])
main = CHECK.main
replay = CHECK.replay
