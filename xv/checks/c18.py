"""C18 — service discovery leads to the user's collections in every deployment layout."""
import collections
import hashlib
import http.client
import itertools
import json
import os
import shutil
import socket
import subprocess
import sys
import tempfile
import time
import urllib.parse

from .. import dav, env, runner

ID = "C18"
RULE = (
    "Deployment matrix: route prefix {/, /dav, /dav/, /a/b/} x principal path {/user/, /user, /x/y/me/, /x/y/me} x mode {--defaults on an empty directory; --autocreate only, then the client "
    "creates a calendar (MKCALENDAR) and an address book (extended MKCOL) under the advertised home sets; pre-existing data served without flags} x front end {`python -m xandikos serve` as a "
    "real process on a loopback port; the xandikos.wsgi module in a fresh process behind WellknownRedirector and a SCRIPT_NAME mount} x restarts {0, 1, 3}. A discovery client written for the "
    "harness starts at /.well-known/caldav, /.well-known/carddav and the root URL, follows redirects, reads current-user-principal, then calendar-home-set / addressbook-home-set / resourcetype of "
    "the principal, then lists the home sets with Depth 1, using only hrefs the server returned. It must reach >=1 calendar and >=1 address book; an event and a contact stored before the first "
    "restart must be served with unchanged ETag and bytes after every restart and the set of collections must not change across restarts. After the first restart the calendar that holds the event is replaced, while the server is down, by a bare clone of itself (a restored backup; configurations with three restarts). Before the restarts a bare git calendar and a bare git address book are placed in the home sets and a calendar is linked into the calendar home set with a symbolic link (data that did not come through the server; all must be reached with their types), the client stores an event and a contact directly in the home sets (the collections must stay reachable), creates a collection of one type in a home set, deletes it and creates a collection of the "
    "other type at the same URL (both orders): discovery must list what exists now, with its type. Quick: 96 configurations (all with >=1 restart) sampled with the seed; "
    "thorough: all 288. Non-trivial: non-root prefix or nested principal, with >=1 restart; distinct by configuration."
)

PREFIXES = ["/", "/dav", "/dav/", "/a/b/"]
PRINCIPALS = ["/user/", "/user", "/x/y/me/", "/x/y/me"]
MODES = ["defaults", "autocreate", "preexisting"]
FRONTENDS = ["serve", "wsgi"]
RESTARTS = [0, 1, 3]

ICS = b"BEGIN:VCALENDAR\r\nVERSION:2.0\r\nPRODID:-//xv//c18//EN\r\nBEGIN:VEVENT\r\nUID:c18-event\r\nDTSTART:20200101T000000Z\r\nSUMMARY:kept\r\nEND:VEVENT\r\nEND:VCALENDAR\r\n"
VCF = b"BEGIN:VCARD\r\nVERSION:3.0\r\nFN:Kept Contact\r\nN:Contact;Kept;;;\r\nUID:c18-card\r\nEND:VCARD\r\n"

WSGI_LAUNCHER = r"""
import os, sys
sys.path.insert(0, os.environ["XV_REPO"])
sys.dont_write_bytecode = True
import logging
logging.disable(logging.CRITICAL)
from wsgiref.simple_server import make_server, WSGIRequestHandler
from xandikos.wsgi import app
from xandikos.wsgi_helpers import WellknownRedirector

prefix = os.environ["XV_PREFIX"]
mount = prefix.rstrip("/")
inner = WellknownRedirector(app, prefix)

class Limited:
    # PEP 3333: a server should simulate end-of-file at Content-Length (uwsgi, gunicorn and
    # mod_wsgi do; wsgiref does not, so read() without a size would block on a keep-alive socket)
    def __init__(self, stream, n):
        self.stream, self.left = stream, n
    def read(self, size=-1):
        if size is None or size < 0 or size > self.left:
            size = self.left
        data = self.stream.read(size) if size else b""
        self.left -= len(data)
        return data
    def readline(self, size=-1):
        data = self.stream.readline(self.left if size is None or size < 0 else min(size, self.left)) if self.left else b""
        self.left -= len(data)
        return data
    def __iter__(self):
        while True:
            ln = self.readline()
            if not ln:
                return
            yield ln


def mounted(environ, start_response):
    try:
        n = int(environ.get("CONTENT_LENGTH") or 0)
    except ValueError:
        n = 0
    environ["wsgi.input"] = Limited(environ["wsgi.input"], n)
    # what a WSGI server does for an application mounted at `mount` (uwsgi mount / SCRIPT_NAME)
    path = environ.get("PATH_INFO", "")
    if path.startswith("/.well-known/") or (mount and not (path == mount or path.startswith(mount + "/"))):
        environ["wsgi.input"].read()  # a real server drains the request body before it closes the connection
    if path.startswith("/.well-known/"):
        return inner(environ, start_response)
    if mount:
        if path == mount or path.startswith(mount + "/"):
            environ["SCRIPT_NAME"] = mount
            environ["PATH_INFO"] = path[len(mount):] or "/"
        elif path == "/":
            start_response("302 Found", [("Location", prefix)])
            return []
        else:
            start_response("404 Not Found", [("Content-Type", "text/plain")])
            return [b"outside mount"]
    return inner(environ, start_response)

class H(WSGIRequestHandler):
    def log_message(self, *a):
        pass

import socket, socketserver
from wsgiref.simple_server import WSGIServer

class UnixWSGIServer(WSGIServer):
    # a unix-domain socket inside the configuration's own scratch directory: no TCP port to race for
    address_family = socket.AF_UNIX
    def server_bind(self):
        socketserver.TCPServer.server_bind(self)
        self.server_name, self.server_port = "localhost", 80
        self.setup_environ()
    def get_request(self):
        sock, _ = self.socket.accept()
        return sock, ("127.0.0.1", 0)  # handlers expect an (address, port) pair

H.address_string = lambda self: "unix"
srv = UnixWSGIServer(os.environ["XV_SOCK"], H)
srv.set_app(mounted)
srv.serve_forever()
"""


class UnixHTTPConnection(http.client.HTTPConnection):
    def __init__(self, path, timeout=30):
        super().__init__("localhost", timeout=timeout)
        self._path = path

    def connect(self):
        s = socket.socket(socket.AF_UNIX, socket.SOCK_STREAM)
        s.settimeout(self.timeout)
        s.connect(self._path)
        self.sock = s


_PORT_COUNTER = [0]


def free_port():
    """A loopback port from a range private to this process (no two harness processes race for one port)."""
    base = 10000 + (os.getpid() % 220) * 100  # below the ephemeral range (32768+) used by client sockets
    for _ in range(100):
        port = base + _PORT_COUNTER[0] % 100
        _PORT_COUNTER[0] += 1
        s = socket.socket()
        try:
            s.bind(("127.0.0.1", port))
            return port
        except OSError:
            continue
        finally:
            s.close()
    s = socket.socket()
    s.bind(("127.0.0.1", 0))
    p = s.getsockname()[1]
    s.close()
    return p


_SOCK_COUNTER = itertools.count()


class Server:
    def __init__(self, cfg, data, flags):
        last = None
        for attempt in range(4):
            try:
                self._start(cfg, data, flags)
                return
            except StartupFailure as e:
                last = e
                if "ddress already in use" not in str(e) and "Errno 98" not in str(e):
                    raise
        raise last

    def _start(self, cfg, data, flags):
        self.sock_path = os.path.join(os.path.dirname(data), "s%d.sock" % next(_SOCK_COUNTER))
        envv = dict(os.environ, XV_REPO=env.REPO, PYTHONPATH=env.REPO, PYTHONDONTWRITEBYTECODE="1", TZ="UTC", HOME=os.path.dirname(data))
        envv.pop("EMAIL", None)
        if cfg["fe"] == "serve":
            # `-l <path>` makes xandikos listen on a unix-domain socket (web.main: "/" in listen_address)
            cmd = [sys.executable, "-m", "xandikos", "serve", "-d", data, "-l", self.sock_path, "--route-prefix", cfg["prefix"], "--current-user-principal", cfg["principal"], "--no-detect-systemd"]
            cmd += {"defaults": ["--defaults"], "autocreate": ["--autocreate"], "none": []}[flags]
        else:
            envv.update(XANDIKOSPATH=data, CURRENT_USER_PRINCIPAL=cfg["principal"], XV_PREFIX=cfg["prefix"], XV_SOCK=self.sock_path)
            auto = {"defaults": "defaults", "autocreate": "yes", "none": None}[flags]
            if auto:
                envv["AUTOCREATE"] = auto
            else:
                envv.pop("AUTOCREATE", None)
            cmd = [sys.executable, "-c", WSGI_LAUNCHER]
        self.errlog = tempfile.TemporaryFile()
        self.proc = subprocess.Popen(cmd, env=envv, cwd=os.path.dirname(data), stdout=subprocess.DEVNULL, stderr=self.errlog)
        deadline = time.time() + 40
        while time.time() < deadline:
            try:
                c = socket.socket(socket.AF_UNIX, socket.SOCK_STREAM)
                c.settimeout(0.5)
                c.connect(self.sock_path)
                c.close()
                return
            except OSError:
                if self.proc.poll() is not None:
                    self.errlog.seek(0)
                    raise StartupFailure(f"server exited with {self.proc.returncode} during start-up: {self.errlog.read()[-1800:].decode('utf-8', 'replace')}")
                time.sleep(0.05)
        raise StartupFailure("server did not start listening within 40 s")

    def request(self, method, target, headers=None, body=None):
        c = UnixHTTPConnection(self.sock_path, timeout=30)
        try:
            c.putrequest(method, target, skip_accept_encoding=True)
            for k, v in headers or []:
                c.putheader(k, v)
            if body is not None:
                c.putheader("Content-Length", str(len(body)))
            try:
                c.endheaders(body)
            except (BrokenPipeError, ConnectionResetError):
                pass  # the server answered (e.g. with a redirect) without reading the body; the answer is still readable
            r = c.getresponse()
            data = r.read()
            return r.status, dict((k.lower(), v) for k, v in r.getheaders()), data
        finally:
            c.close()

    def stop(self):
        try:
            self.proc.terminate()
            try:
                self.proc.wait(5)
            except subprocess.TimeoutExpired:
                self.proc.kill()
                self.proc.wait(5)
        except Exception:
            pass
        self.errlog.close()
        try:
            os.unlink(self.sock_path)
        except OSError:
            pass


class StartupFailure(Exception):
    pass


class DiscoveryFailure(Exception):
    def __init__(self, sig, detail):
        super().__init__(detail)
        self.sig = sig
        self.detail = detail


def resolve(base, href):
    u = urllib.parse.urljoin("http://localhost" + base, href)
    sp = urllib.parse.urlsplit(u)
    return sp.path + (("?" + sp.query) if sp.query else "")


def propfind(srv, target, props, depth="0"):
    st, h, body = srv.request("PROPFIND", target, [("Depth", depth), dav.XML_CT], dav.propfind_body(props))
    if st != 207:
        raise DiscoveryFailure("propfind-failed", f"PROPFIND {target!r} (Depth {depth}) answered {st} {body[:200]!r}")
    try:
        ms = dav.Multistatus(body)
    except Exception as e:
        raise DiscoveryFailure("propfind-unparseable", f"PROPFIND {target!r}: {e}")
    if not ms.responses or ms.responses[0].status == 404:
        raise DiscoveryFailure("propfind-404", f"PROPFIND {target!r} (Depth {depth}) says 404")
    return ms


def follow(srv, start):
    """Follow redirects from a starting URL; returns the final target."""
    target = start
    for _ in range(5):
        st, h, body = srv.request("PROPFIND", target, [("Depth", "0"), dav.XML_CT], dav.propfind_body(["{DAV:}current-user-principal"]))
        if st in (301, 302, 303, 307, 308):
            loc = h.get("location")
            if not loc:
                raise DiscoveryFailure("redirect-without-location", f"{target!r} answered {st} without Location")
            target = resolve(target, loc)
            continue
        return target, st, body
    raise DiscoveryFailure("redirect-loop", f"too many redirects from {start!r}")


def discover(srv, start, trace):
    """-> (calendars {href: etag-of-collection}, addressbooks) reachable from `start` using only server-provided hrefs."""
    target, st, body = follow(srv, start)
    trace.append(("landing", start, target, st))
    if st != 207:
        raise DiscoveryFailure("landing-not-dav", f"start {start!r} ends at {target!r} which answers {st} to PROPFIND")
    ms = dav.Multistatus(body)
    hrefs = ms.responses[0].prop_hrefs("{DAV:}current-user-principal")
    if not hrefs:
        raise DiscoveryFailure("no-current-user-principal", f"{target!r} returns no current-user-principal href")
    principal = resolve(target, hrefs[0])
    trace.append(("principal", principal))
    ms = propfind(srv, principal, ["{DAV:}resourcetype", "{urn:ietf:params:xml:ns:caldav}calendar-home-set", "{urn:ietf:params:xml:ns:carddav}addressbook-home-set"])
    r0 = ms.responses[0]
    if "{DAV:}principal" not in (r0.resourcetypes() or []):
        raise DiscoveryFailure("principal-href-not-a-principal", f"{principal!r} has resourcetype {r0.resourcetypes()}")
    out = {}
    for kind, prop, rt in (("calendar", "{urn:ietf:params:xml:ns:caldav}calendar-home-set", dav.CAL), ("addressbook", "{urn:ietf:params:xml:ns:carddav}addressbook-home-set", dav.CARD)):
        homes = r0.prop_hrefs(prop)
        if not homes:
            raise DiscoveryFailure(f"no-{kind}-home-set", f"principal {principal!r} advertises no {kind} home set")
        found = {}
        for hh in homes:
            home = resolve(principal, hh)
            trace.append((kind + "-home", home))
            lst = propfind(srv, home, ["{DAV:}resourcetype", "{DAV:}displayname"], depth="1")
            for resp in lst.responses[1:]:
                if "{%s}%s" % (rt, kind) in (resp.resourcetypes() or []):
                    found[resolve(home, resp.href)] = True
        out[kind] = (sorted(found), [resolve(principal, hh) for hh in homes])
    return out


def run_config(cfg):
    """-> dict(ok, violation, trace)"""
    scratch = tempfile.mkdtemp(prefix="xv18-", dir=env.scratch_root())
    data = os.path.join(scratch, "data")
    trace = []
    srv = None
    out = {"ok": True, "violation": None, "trace": trace}

    def fail(sig, detail):
        out["ok"] = False
        out["violation"] = {"sig": sig, "detail": f"{detail}; configuration {cfg}; trace {trace[-8:]}"}
        return out

    try:
        mode = cfg["mode"]
        try:
            if mode == "preexisting":
                # data created by an earlier run with --defaults, now served without any flag
                srv = Server(cfg, data, "defaults")
                srv.stop()
                srv = Server(cfg, data, "none")
            else:
                srv = Server(cfg, data, mode)
        except StartupFailure as e:
            return fail("server-does-not-start", str(e))
        starts = ["/.well-known/caldav", "/.well-known/carddav", "/"]
        try:
            found = discover(srv, starts[0], trace)
            if mode == "autocreate":
                # the client creates its collections under the advertised home sets
                cal_home = found["calendar"][1][0]
                ab_home = found["addressbook"][1][0]
                st, h, b = srv.request("MKCALENDAR", cal_home + "work", [dav.XML_CT], dav.mkcol_body("C:mkcalendar", [("{DAV:}displayname", "Work")]))
                if st != 201:
                    return fail("client-mkcalendar-failed", f"MKCALENDAR {cal_home + 'work'!r} answered {st} {b[:200]!r}")
                st, h, b = srv.request("MKCOL", ab_home + "people", [dav.XML_CT], dav.mkcol_body("D:mkcol", [("{DAV:}resourcetype", ("xml", "<D:collection/><A:addressbook/>"))]))
                if st != 201:
                    return fail("client-mkcol-failed", f"extended MKCOL {ab_home + 'people'!r} answered {st} {b[:200]!r}")
                found = discover(srv, starts[0], trace)
            if not found["calendar"][0]:
                return fail("no-calendar-reached", "discovery reached no collection with resourcetype calendar")
            if not found["addressbook"][0]:
                return fail("no-addressbook-reached", "discovery reached no collection with resourcetype addressbook")
            for s in starts[1:]:
                other = discover(srv, s, trace)
                if other != found:
                    return fail("start-points-disagree", f"discovery from {s!r} reaches {other}, from {starts[0]!r} {found}")
            cal, ab = found["calendar"][0][0], found["addressbook"][0][0]
            ev_url, card_url = cal + "kept.ics", ab + "kept.vcf"
            st, h, b = srv.request("PUT", ev_url, [("Content-Type", "text/calendar")], ICS)
            if st not in (201, 204):
                return fail("put-event-failed", f"PUT {ev_url!r} answered {st} {b[:200]!r}")
            st, h, b = srv.request("PUT", card_url, [("Content-Type", "text/vcard")], VCF)
            if st not in (201, 204):
                return fail("put-contact-failed", f"PUT {card_url!r} answered {st} {b[:200]!r}")
            before = {}
            for u in (ev_url, card_url):
                st, h, b = srv.request("GET", u)
                if st != 200:
                    return fail("get-after-put-failed", f"GET {u!r} answered {st}")
                before[u] = (h.get("etag"), b)
            # user data that did not come through the server: bare git repositories (a pushed or restored
            # calendar / address book) placed in the home sets must be reached with their types like any other
            if cfg.get("bare", True):
                try:
                    from xandikos.icalendar import ICalendarFile
                    from xandikos.store.git import BareGitStore
                    from xandikos.vcard import VCardFile

                    pre = cfg["prefix"].rstrip("/")
                    for kind, nm, handler, ct, body in (("calendar", "shared", ICalendarFile, "text/calendar", ICS.replace(b"c18-event", b"c18-bare")), ("addressbook", "family", VCardFile, "text/vcard", VCF.replace(b"c18-card", b"c18-bare"))):
                        home = found[kind][1][0]
                        rel = urllib.parse.unquote(home[len(pre):] if pre and home.startswith(pre) else home)
                        fs = os.path.join(data, rel.strip("/"), nm)
                        if not os.path.exists(fs):
                            st_ = BareGitStore.create(fs)
                            st_.load_extra_file_handler(handler)
                            st_.set_type(kind)
                            st_.import_one("kept-bare" + (".ics" if kind == "calendar" else ".vcf"), ct, [body])
                            st_.repo.close()
                        trace.append(("bare-repository", fs))
                except Exception as e:
                    raise RuntimeError(f"harness: could not create bare repositories: {e!r}")
                # ... and a calendar that is a symbolic link to a directory elsewhere in the data directory (a shared calendar)
                try:
                    home = found["calendar"][1][0]
                    rel = urllib.parse.unquote(home[len(pre):] if pre and home.startswith(pre) else home)
                    link = os.path.join(data, rel.strip("/"), "linked")
                    target_dir = os.path.join(data, "shared-elsewhere", "team")
                    if not os.path.lexists(link):
                        os.makedirs(os.path.dirname(target_dir), exist_ok=True)
                        shutil.copytree(os.path.join(data, rel.strip("/"), "shared"), target_dir, symlinks=True)
                        os.symlink(target_dir, link)
                    trace.append(("symlinked-collection", link))
                except Exception as e:
                    raise RuntimeError(f"harness: could not create the symbolic link: {e!r}")
                now = discover(srv, starts[0], trace)
                if found["calendar"][1][0] + "linked/" not in now["calendar"][0]:
                    return fail("symlinked-collection-not-reached", f"a calendar linked into the home set at {found['calendar'][1][0] + 'linked/'!r} is not reached: {now['calendar'][0]}")
                for kind, nm in (("calendar", "shared"), ("addressbook", "family")):
                    want = found[kind][1][0] + nm + "/"
                    if want not in now[kind][0]:
                        return fail("bare-collection-not-reached", f"a bare git {kind} was placed at {want!r} but discovery reaches {now[kind][0]} (other kind: {now['addressbook' if kind == 'calendar' else 'calendar'][0]})")
                found = now
            # a sloppy client stores an object directly in a home set: whatever the answer, the collections stay reachable
            if cfg.get("stray", True):
                for kind, nm, ct, body in (("calendar", "stray.ics", "text/calendar", ICS.replace(b"c18-event", b"c18-stray")), ("addressbook", "stray.vcf", "text/vcard", VCF.replace(b"c18-card", b"c18-stray"))):
                    home = found[kind][1][0]
                    st, h, b = srv.request("PUT", home + nm, [("Content-Type", ct)], body)
                    trace.append(("stray-object", home + nm, st))
                now = discover(srv, starts[0], trace)
                if now != found:
                    return fail("collections-hidden-by-object-in-home-set", f"after a PUT of an event / a contact directly into the home sets discovery reaches {now}, before {found}")
            # a collection of one type replaced by a collection of the other type at the same URL: discovery must
            # report what exists now, in the running server and after every restart
            kinds = [("C:mkcalendar", None, "calendar"), ("D:mkcol", "<D:collection/><A:addressbook/>", "addressbook")]
            if cfg.get("retype", "cal-to-ab") == "ab-to-cal":
                kinds.reverse()
            final_kind = kinds[1][2]
            # half of the configurations use a name with characters that matter in URLs ('#', '?', blank)
            team = found[final_kind][1][0] + ("team/" if cfg.get("retype", "cal-to-ab") == "cal-to-ab" else "Te%20am%20%231%3F/")
            for n, (root, rt, kind) in enumerate(kinds):
                if root == "C:mkcalendar":
                    st, h, b = srv.request("MKCALENDAR", team, [dav.XML_CT], dav.mkcol_body("C:mkcalendar", [("{DAV:}displayname", "Team")]))
                else:
                    st, h, b = srv.request("MKCOL", team, [dav.XML_CT], dav.mkcol_body("D:mkcol", [("{DAV:}resourcetype", ("xml", rt))]))
                if st != 201:
                    return fail("client-mkcol-failed", f"creating {kind} {team!r} answered {st} {b[:200]!r}")
                now = discover(srv, starts[n % 3], trace)
                other = "addressbook" if kind == "calendar" else "calendar"
                if team not in now[kind][0] and kind == final_kind:
                    return fail("retyped-collection-not-reached", f"{team!r} was created as {kind} (after a collection of the other type had been deleted at this URL: {n == 1}) but discovery reaches {now[kind][0]}")
                if team in now[other][0]:
                    return fail("retyped-collection-wrong-type", f"{team!r} was created as {kind} but is listed with resourcetype {other}")
                if n == 0:
                    st, h, b = srv.request("DELETE", team)
                    if st not in (200, 204):
                        return fail("client-delete-failed", f"DELETE {team!r} answered {st}")
                else:
                    found = now
            for k in range(cfg["restarts"]):
                srv.stop()
                if k == 1 and cfg.get("bare", True):
                    # while the server is down the calendar that holds the event is restored from a bare
                    # backup (git clone --bare): same history, same objects, no work tree.  A start must
                    # serve it as it is - in particular at a path the start-up code creates defaults for.
                    pre = cfg["prefix"].rstrip("/")
                    evp = urllib.parse.urlsplit(ev_url).path
                    rel = urllib.parse.unquote(evp[len(pre):] if pre and evp.startswith(pre) else evp)
                    fs = os.path.join(data, os.path.dirname(rel.strip("/")))
                    if os.path.isdir(os.path.join(fs, ".git")) and not os.path.islink(fs):
                        import subprocess

                        tmpd = fs + ".restore"
                        cp = subprocess.run(["git", "clone", "-q", "--bare", fs, tmpd], capture_output=True, env=dict(os.environ, GIT_CONFIG_NOSYSTEM="1"))
                        if cp.returncode != 0:
                            raise RuntimeError(f"harness: git clone --bare failed: {cp.stderr[:300]!r}")
                        shutil.rmtree(fs)
                        os.rename(tmpd, fs)
                        trace.append(("restored-as-bare", fs))
                flags = {"defaults": "defaults", "autocreate": "autocreate", "preexisting": "none"}[mode]
                try:
                    srv = Server(cfg, data, flags)
                except StartupFailure as e:
                    return fail("server-does-not-restart", f"restart {k + 1}: {e}")
                again = discover(srv, starts[k % 3], trace)
                if again != found:
                    return fail("collections-changed-by-restart", f"after restart {k + 1} discovery reaches {again}, before {found}")
                for u in (ev_url, card_url):
                    st, h, b = srv.request("GET", u)
                    if st != 200 or (h.get("etag"), b) != before[u]:
                        return fail("data-changed-by-restart", f"after restart {k + 1} GET {u!r} answers {st} ETag {h.get('etag')} (before: {before[u][0]})")
        except DiscoveryFailure as e:
            return fail(e.sig, e.detail)
        return out
    finally:
        if srv is not None:
            srv.stop()
        shutil.rmtree(scratch, ignore_errors=True)


def all_configs(thorough=False):
    prefixes = PREFIXES + (["/a/b", "/x/"] if thorough else [])
    restarts = RESTARTS + ([6] if thorough else [])
    for i, (p, pr, m, fe, r) in enumerate(itertools.product(prefixes, PRINCIPALS, MODES, FRONTENDS, restarts)):
        yield {"prefix": p, "principal": pr, "mode": m, "fe": fe, "restarts": r, "retype": ["cal-to-ab", "ab-to-cal"][(i // len(restarts)) % 2]}


def shard(shard, configs):
    out = {"evaluations": 0, "nontrivial": set(), "violations": {}, "errors": [], "samples": [], "stats": collections.Counter()}
    for i, cfg in enumerate(configs):
        if i % runner.NSHARDS != shard:
            continue
        try:
            r = run_config(cfg)
        except Exception:
            import traceback

            out["errors"].append(traceback.format_exc())
            continue
        out["evaluations"] += 1
        key = json.dumps(cfg, sort_keys=True)
        if (cfg["prefix"].strip("/") or cfg["principal"].strip("/").count("/")) and cfg["restarts"] >= 1:
            out["nontrivial"].add(key)
        out["stats"][f"fe:{cfg['fe']}"] += 1
        out["stats"][f"mode:{cfg['mode']}"] += 1
        if any(t and t[0] == "restored-as-bare" for t in r["trace"]):
            out["stats"]["restored-as-bare"] += 1
        if len(out["samples"]) < 1:
            out["samples"].append({"config": cfg, "trace": [list(t) for t in r["trace"][:8]]})
        if not r["ok"]:
            sig = f"{r['violation']['sig']}:{cfg['fe']}:{cfg['mode']}"
            out["violations"].setdefault(sig, (r["violation"]["detail"], cfg))
    out["stats"] = dict(out["stats"])
    return out


def main(tier, seed):
    res = runner.CheckResult(ID, tier, seed)
    res.rule = RULE
    configs = list(all_configs(tier == "thorough"))
    total = len(configs)
    shards = runner.run_shards(shard, configs=configs)
    stats = collections.Counter()
    for sr in shards:
        if "error" in sr:
            res.errors.append(sr["error"])
            continue
        res.evaluations += sr["evaluations"]
        res.nontrivial |= sr["nontrivial"]
        res.errors.extend(sr["errors"])
        stats.update(sr["stats"])
        res.samples.extend(sr["samples"][:1])
        for sig, (detail, cfg) in sr["violations"].items():
            res.add_violation(sig, detail, {"engine": "c18", "config": cfg})
    res.samples = res.samples[:3]
    res.extra["configurations_total"] = total
    res.extra["configurations_run"] = len(configs)
    res.extra["stats"] = dict(stats)
    res.exhaustive = len(configs) == total
    res.assumptions = [
        "the WSGI deployment is modelled with wsgiref + a SCRIPT_NAME mount + WellknownRedirector in a fresh process per start (uwsgi/nginx are not available offline)",
        "a restart is a real process restart (terminate, start again with the same flags on the same directory)",
    ]
    return res


def replay(obj):
    r = run_config(obj["config"])
    return r["ok"], (r["violation"] or {}).get("detail")
