"""C06 — UIDs are unique within a calendar, and only real conflicts are refused."""
from hypothesis import strategies as st

from .. import gen, gen_prog, runner
from ..machine import enc_body
from ..storemachine import store_program
from . import c01_store
from ._machine import MachineCheck

ID = "C06"
RULE = (
    "Generated histories of creates, overwrites (same UID, changed UID, UID of a deleted member, UID held by another member), deletes and restarts over 4-5 names (in a third of the programs two of them differ only in letter case) and a pool of "
    "UIDs incl. case variants (Abc/abc), inner spaces, escaped ',' ';' and non-ASCII, objects without UID and objects whose first component (VTIMEZONE) has none; over HTTP (PUT and POST, "
    "tree-git and bare-git) and through the store API on tree-git, bare-git disk, bare-git memory and vdir. Model: uid(name) = TEXT-unescaped UID of the first component that has one, exact "
    "string comparison; a write is refused with no-uid-conflict / DuplicateUidError iff another live member of the same collection holds the UID. Non-trivial program: contains a refused real "
    "conflict and an accepted re-use of a UID after its holder was deleted or changed UID; distinct by program hash."
)

UIDS = ["u1", "u2", "Abc", "abc", "id with  spaces", "esc\\,a\;b", "ünï-日", " u1", "u1 ", "abc "]


@st.composite
def uid_program(draw):
    cfg = {"prefix": draw(st.sampled_from(gen_prog.PREFIXES)), "seed": []}
    if draw(st.booleans()):
        cfg["seed"].append({"slot": "b1", "bare": True, "meta": draw(st.sampled_from(["config", "file"])), "kind": "calendar"})
    names = [draw(gen.member_name(".ics", fancy=False)) for _ in range(3)] + [draw(gen.member_name(".ics", fancy=True)) for _ in range(2)]
    if draw(st.integers(0, 2)) == 0:
        # two member names that differ only in letter case are two members (git trees are case-sensitive)
        stem = names[0][: -len(".ics")]
        twin = draw(st.sampled_from([stem.swapcase(), stem.upper(), stem.capitalize()]))
        if twin == stem:
            stem, twin = "meeting" + stem, "Meeting" + stem
            names[0] = stem + ".ics"
        names[1] = twin + ".ics"
    uids = draw(st.lists(st.sampled_from(UIDS), min_size=2, max_size=4, unique=True))
    bodies = []
    for u in uids:
        for _ in range(2):
            bodies.append(draw(gen.calendar_object(uid=u)))
    bodies.append(draw(gen.calendar_object(uid="")))  # no UID at all
    steps = [{"op": "MKCOL", "fe": draw(gen_prog.FE), "coll": "c1", "kind": "mkcalendar"}]
    colls = ["c1", "c1", "c1", "b1"] if cfg["seed"] else ["c1"]
    for _ in range(draw(st.integers(8, 24))):
        op = draw(st.sampled_from(["PUT"] * 7 + ["POST", "DELETE", "DELETE", "DELETE", "RESTART"]))
        fe = draw(gen_prog.FE)
        coll = draw(st.sampled_from(colls))
        if op == "PUT":
            steps.append({"op": "PUT", "fe": fe, "coll": coll, "name": draw(st.sampled_from(names)), "ctype": draw(st.sampled_from(gen_prog.CAL_CTYPES)), "body": enc_body(draw(st.sampled_from(bodies))["raw"]), "cond": []})
        elif op == "POST":
            steps.append({"op": "POST", "fe": fe, "coll": coll, "ctype": draw(st.sampled_from(gen_prog.CAL_CTYPES)), "body": enc_body(draw(st.sampled_from(bodies))["raw"])})
        elif op == "DELETE":
            steps.append({"op": "DELETE", "fe": fe, "coll": coll, "name": draw(st.sampled_from(names)), "cond": []})
        else:
            steps.append({"op": "RESTART"})
        gen_prog.wrap_locked(draw, steps, 9)  # a write refused as locked must not leave its UID behind
    return {"config": cfg, "steps": steps}


@st.composite
def uid_release_program(draw):
    """Histories built around one UID that is taken, released (overwrite with another UID or with an object
    without UID, delete) and taken again by other members, with unrelated writes in between - the sequences in
    which a stale entry of the server's UID bookkeeping decides the answer."""
    cfg = {"prefix": draw(st.sampled_from(gen_prog.PREFIXES)), "seed": []}
    bare = draw(st.integers(0, 2)) == 0
    if bare:
        cfg["seed"].append({"slot": "b1", "bare": True, "meta": "config", "kind": "calendar"})
    coll = "b1" if bare else "c1"
    names = [draw(gen.member_name(".ics", fancy=False)) for _ in range(5)]
    names = list(dict.fromkeys(names + ["a1.ics", "b2.ics", "c3.ics", "d4.ics", "e5.ics"]))[:5]
    a, b, c, d, e = names
    X, Y, Z = "u1", "u2", "u3"
    if draw(st.integers(0, 3)) == 0:
        Y = draw(st.sampled_from([" u1", "u1 "]))  # differs from X only by white space at the edge: another UID
    body = lambda u: enc_body(draw(gen.calendar_object(uid=u))["raw"])  # noqa: E731
    steps = [{"op": "MKCOL", "fe": draw(gen_prog.FE), "coll": "c1", "kind": "mkcalendar"}]

    def put(n, u):
        steps.append({"op": "PUT", "fe": draw(gen_prog.FE), "coll": coll, "name": n, "ctype": draw(st.sampled_from(gen_prog.CAL_CTYPES)), "body": body(u), "cond": []})

    def delete(n):
        steps.append({"op": "DELETE", "fe": draw(gen_prog.FE), "coll": coll, "name": n, "cond": []})

    def filler():
        for _ in range(draw(st.integers(0, 2))):
            k = draw(st.integers(0, 5))
            if k <= 2:
                put(draw(st.sampled_from([d, e])), draw(st.sampled_from([Y, Z, Z])))
            elif k == 3:
                delete(draw(st.sampled_from([d, e])))
            elif k == 4:
                steps.append({"op": "RESTART"})
            else:
                put(draw(st.sampled_from([d, e])), X)  # a real conflict (or not, if X is free right now)

    put(a, X)
    filler()
    for _ in range(draw(st.integers(1, 3))):
        how = draw(st.sampled_from(["uidless", "uidless", "other", "delete", "same"]))
        if how == "uidless":
            put(a, "")
        elif how == "other":
            put(a, Y)
        elif how == "delete":
            delete(a)
        else:
            put(a, X)
        filler()
        put(b, X)
        filler()
        what = draw(st.sampled_from(["delete-a", "delete-a", "put-a", "nothing"]))
        if what == "delete-a":
            delete(a)
        elif what == "put-a":
            put(a, draw(st.sampled_from([Y, "", X])))
        filler()
        put(c, X)
        filler()
        delete(draw(st.sampled_from([b, c])))
        put(draw(st.sampled_from([a, c, b])), X)
        a, b, c = draw(st.permutations([a, b, c]))
    return {"config": cfg, "steps": steps}


def strategy():
    return st.one_of(uid_program(), uid_program(), uid_release_program())


def nontrivial(program, stt, r):
    return stt.get("uid:real-conflict", 0) >= 1 and stt.get("uid:reuse-after-release", 0) >= 1


def labels(program, stt, r):
    return [k for k in stt if k.startswith("uid:")] + (["restart"] if stt.get("restarts") else [])


CHECK = MachineCheck(ID, RULE, ("content", "uid"), strategy, nontrivial, labels=labels, quick=30, thorough=400)


def store_strategy():
    return store_program(uid_pool=UIDS[:5], etag_rate=8, with_cards=False, min_steps=8, max_steps=30, two_handles=True)


def main(tier, seed):
    res = CHECK.main(tier, seed)
    c01_store.run(res, tier, seed, examples=40 if tier == "quick" else 500, strategy=store_strategy)
    res.assumptions = ["vCards are outside the property (calendar object resources); VCardFile has no UID tracking", "a failing If-Match precondition may be reported before the UID conflict"]
    return res


def replay(obj):
    if obj.get("engine") == "store":
        from ..storemachine import run_store_program

        r = run_store_program(obj["program"])
        return r["ok"], (r["violation"] or {}).get("detail")
    return CHECK.replay(obj)
