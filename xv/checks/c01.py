"""C01 — collection contents equal the outcome of the acknowledged writes."""
from .. import env, runner
from ..machine import program_hash, run_program
from .. import gen_prog

ID = "C01"

RULE = (
    "Hypothesis-generated request histories (PUT/POST/DELETE/MKCOL/MKCALENDAR/PROPPATCH/GET/PROPFIND/REPORT/restart, "
    "both front ends, 3 route prefixes, tree-git + pre-seeded bare-git collections) run against a reference model; "
    "after every step PROPFIND Depth 1 of every collection and GET of every member of the touched collections are compared "
    "with the model (full audit at restarts and at the end through both front ends). A program is non-trivial if it has "
    ">=1 acknowledged overwrite, >=1 acknowledged delete, >=1 non-acknowledged write-type request, >=2 collections written "
    "and >=1 restart after a write; distinct = hash of the program."
)


def nontrivial(program, stats):
    if stats.get("ack:overwrite", 0) < 1 or stats.get("ack:DELETE", 0) < 1 or stats.get("noack:write", 0) < 1:
        return False
    colls = set()
    wrote = False
    restart_after = False
    for s in program["steps"]:
        if s["op"] in ("PUT", "POST"):
            colls.add(s["coll"])
            wrote = True
        if s["op"] == "RESTART" and wrote:
            restart_after = True
    return len(colls) >= 2 and restart_after


def run_one(program):
    r = run_program(program, observers=("content",))
    st = r["stats"]
    return {
        "ok": r["ok"],
        "violation": r["violation"],
        "stats": st,
        "known": r["known"],
        "nontrivial": nontrivial(program, st),
        "key": program_hash(program),
        "size": len(program["steps"]),
        "labels": ["prefix:" + program["config"]["prefix"]] + (["seeded-bare"] if program["config"]["seed"] else []),
        "sample": program,
    }


def strategy():
    return gen_prog.program(weights={"READ": 2}, sparse_rate=4, locked_rate=10)


def still_fails(sig):
    def f(program):
        r = run_program(program, observers=("content",))
        return (not r["ok"]) and r["violation"]["sig"] == sig

    return f


K8_VALUES = [r"C:\\New folder", r"\\Network\\Name", r"a\\\\\\Nb", r"x\\N"]


def k8_probe(res):
    """The generators leave out one spelling (a literal backslash followed by a capital N) because of known
    finding K8; this probe sends exactly that spelling, through both front ends, and accepts only the recorded
    behaviour (or the correct one)."""
    from .. import findings, icalref
    from ..world import World

    w = World()
    try:
        w.request("wsgi", "MKCALENDAR", "/user/calendars/k8")
        for i, val in enumerate(K8_VALUES):
            for fe in ("wsgi", "aio"):
                raw = ("BEGIN:VCALENDAR\r\nVERSION:2.0\r\nPRODID:-//xv//k8//EN\r\nBEGIN:VEVENT\r\nUID:k8-%d-%s\r\nDTSTAMP:20200101T000000Z\r\nSUMMARY:%s\r\nEND:VEVENT\r\nEND:VCALENDAR\r\n" % (i, fe, val)).encode()
                path = "/user/calendars/k8/k8-%d-%s.ics" % (i, fe)
                r = w.request(fe, "PUT", path, [("Content-Type", "text/calendar")], raw)
                res.evaluations += 1
                if r.status not in (201, 204):
                    res.add_violation("k8-probe/refused", f"PUT of SUMMARY:{val} answered {r.status} {r.exc or r.body[:200]!r}", {"engine": "k8", "value": val, "fe": fe})
                    continue
                g = w.request(fe, "GET", path)
                try:
                    same = icalref.parse_one(g.body, "VCALENDAR").canon() == icalref.parse_one(raw, "VCALENDAR").canon()
                except icalref.ParseError:
                    same = False
                if same:
                    continue
                if findings.k8_backslash_capital_n(raw, g.body):
                    res.known["K8"] += 1
                else:
                    res.add_violation("k8-probe/other-difference", f"PUT of SUMMARY:{val} via {fe} is served as {[ln for ln in g.body.splitlines() if ln.startswith(b'SUMMARY')]}", {"engine": "k8", "value": val, "fe": fe})
    finally:
        w.close()


def main(tier, seed):
    res = runner.CheckResult(ID, tier, seed)
    res.rule = RULE
    examples = 14 if tier == "quick" else 200
    shards = runner.run_shards(runner.machine_shard, seed=seed, examples=examples, strategy_factory=strategy, run_one=run_one)
    viols = runner.merge_machine(res, shards)
    for sig, v in viols.items():
        prog = runner.ddmin_steps(v["case"], still_fails(sig), keep_prefix=0, budget=80 if tier == "quick" else 300)
        rr = run_program(prog, observers=("content",))
        detail = rr["violation"]["detail"] if not rr["ok"] else v["violation"]["detail"]
        res.add_violation(f"{v['violation']['oracle']}/{sig}", detail, {"engine": "machine", "program": prog})
    from . import c01_store

    c01_store.run(res, tier, seed)
    k8_probe(res)
    st = res.extra.get("stats", {})
    if st.get("ack:PUT", 0) == 0:
        res.errors.append("vacuity guard: no PUT was ever acknowledged")
    if st.get("restarts", 0) == 0:
        res.errors.append("vacuity guard: no restart in any program")
    res.assumptions = [
        "in-process restart = open_store_from_path.cache_clear() + new backend/app objects (real process restarts are exercised by C18)",
        "member names exclude '/', NUL, leading '.', '.tmp' suffix and the reserved names .git/.xandikos",
        "iCalendar bodies compared with an independent content-line parser (multiset of properties per component)",
    ]
    return res


def replay(obj):
    if obj.get("engine") == "k8":
        sub = runner.CheckResult(ID, "quick", 0)
        k8_probe(sub)
        return not sub.violations, (sub.violations[0]["detail"] if sub.violations else None)
    if obj.get("engine") == "store":
        from ..storemachine import run_store_program

        r = run_store_program(obj["program"])
        return r["ok"], (r["violation"] or {}).get("detail")
    r = run_program(obj["program"], observers=("content",))
    return r["ok"], (r["violation"] or {}).get("detail")
