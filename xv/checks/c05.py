"""C05 — concurrent writes behave as if executed one after another."""
import collections
import hashlib
import itertools
import json
import os
import shutil
import tempfile

from hypothesis import strategies as st

from .. import env, gen, icalref, runner, sched
from ..machine import body_of, enc_body
from ..storemachine import open_store, outcome_class

ID = "C05"
RULE = (
    "Two or three store operations (puts to new/existing names, unconditional or conditional on the current ETag, with the same or different UIDs; deletes with/without etag) over a generated "
    "prior state, on tree-git and bare-git stores, in two sharing modes (one Store object shared by all threads, as in one server process; one Store/Repo object per operation on the same directory, "
    "as separate processes). The harness owns the schedule: each operation runs in a thread that holds a baton and offers it back at every source line of xandikos/store/*.py and at every audited "
    "file-system event inside the store directory (this splits dulwich calls). Enumeration: every schedule with one pre-emption over all fine points (quick: every 3rd point), two pre-emptions over "
    "the file-system points, every 12th point per axis (thorough), three operations with one pre-emption (thorough), plus Hypothesis-drawn random schedules with unbounded pre-emptions. Oracle: per-operation outcomes "
    "{ok, InvalidETag, DuplicateUid, NoSuchItem, Locked, other} and the final {name: bytes} (store re-opened and read completely) must equal those of some sequential execution of the operations not "
    "answered Locked; Locked operations must have no effect. Non-trivial: a schedule with >=1 pre-emption in which every operation had started before another finished; distinct by "
    "(template, sharing mode, back end, switch points)."
)

ICS = "BEGIN:VCALENDAR\r\nVERSION:2.0\r\nPRODID:-//xv//c05//EN\r\nBEGIN:VEVENT\r\nUID:%s\r\nDTSTART:20200101T000000Z\r\nSUMMARY:%s\r\nEND:VEVENT\r\nEND:VCALENDAR\r\n"


def body(uid, summ):
    return (ICS % (uid, summ)).encode()


# prior state: a.ics (UID ua), b.ics (UID ub)
PRIOR = {"a.ics": body("ua", "a v1"), "b.ics": body("ub", "b v1")}

TEMPLATES = {
    "put-new/put-new": [{"k": "put", "name": "c.ics", "body": body("uc", "c")}, {"k": "put", "name": "d.ics", "body": body("ud", "d")}],
    "put-new/put-new-same-uid": [{"k": "put", "name": "c.ics", "body": body("ux", "c")}, {"k": "put", "name": "d.ics", "body": body("ux", "d")}],
    "cond-put/cond-put-same-etag": [{"k": "put", "name": "a.ics", "body": body("ua", "a v2"), "cond": True}, {"k": "put", "name": "a.ics", "body": body("ua", "a v3"), "cond": True}],
    "put-existing/delete": [{"k": "put", "name": "a.ics", "body": body("ua", "a v2")}, {"k": "delete", "name": "a.ics"}],
    "put-existing/put-other-new": [{"k": "put", "name": "a.ics", "body": body("ua", "a v2")}, {"k": "put", "name": "c.ics", "body": body("uc", "c")}],
    "put-existing/put-other-existing": [{"k": "put", "name": "a.ics", "body": body("ua", "a v2")}, {"k": "put", "name": "b.ics", "body": body("ub", "b v2")}],
    "delete/delete-same": [{"k": "delete", "name": "a.ics"}, {"k": "delete", "name": "a.ics"}],
    "cond-delete/cond-put": [{"k": "delete", "name": "a.ics", "cond": True}, {"k": "put", "name": "a.ics", "body": body("ua", "a v2"), "cond": True}],
    "put-new/delete-other": [{"k": "put", "name": "c.ics", "body": body("uc", "c")}, {"k": "delete", "name": "b.ics"}],
    "uid-change/put-new-old-uid": [{"k": "put", "name": "a.ics", "body": body("uz", "a new uid")}, {"k": "put", "name": "c.ics", "body": body("ua", "c takes ua")}],
    "uid-swap": [{"k": "put", "name": "a.ics", "body": body("ub", "a takes ub")}, {"k": "delete", "name": "b.ics"}],
    "delete/put-same-uid-elsewhere": [{"k": "delete", "name": "a.ics"}, {"k": "put", "name": "c.ics", "body": body("ua", "c takes ua")}],
}
TEMPLATES3 = {
    "three-puts": [{"k": "put", "name": "c.ics", "body": body("uc", "c")}, {"k": "put", "name": "d.ics", "body": body("ud", "d")}, {"k": "put", "name": "a.ics", "body": body("ua", "a v2")}],
    "two-cond-puts+delete": [{"k": "put", "name": "a.ics", "body": body("ua", "a v2"), "cond": True}, {"k": "put", "name": "a.ics", "body": body("ua", "a v3"), "cond": True}, {"k": "delete", "name": "b.ics"}],
}


# two overlapping operations followed by a third one that starts after both have finished
TEMPLATES_SEQ = {
    "put/put-other-uid/then-put-first-uid": [{"k": "put", "name": "c.ics", "body": body("ux", "c")}, {"k": "put", "name": "d.ics", "body": body("ud", "d")}, {"k": "put", "name": "e.ics", "body": body("ux", "e")}],
    "cond-put/put-other/then-stale-cond-put": [{"k": "put", "name": "a.ics", "body": body("ua", "a v2"), "cond": True}, {"k": "put", "name": "c.ics", "body": body("uc", "c")}, {"k": "put", "name": "a.ics", "body": body("ua", "a v3"), "cond": True}],
    "delete/put-other/then-put-freed-uid": [{"k": "delete", "name": "a.ics"}, {"k": "put", "name": "c.ics", "body": body("uc", "c")}, {"k": "put", "name": "e.ics", "body": body("ua", "e takes ua")}],
    "put-new/delete-other/then-delete-new": [{"k": "put", "name": "c.ics", "body": body("uc", "c")}, {"k": "delete", "name": "b.ics"}, {"k": "delete", "name": "c.ics"}],
}


def template_ops(tname):
    for d in (TEMPLATES, TEMPLATES3, TEMPLATES_SEQ):
        if tname in d:
            return d[tname]
    raise KeyError(tname)


def uid_of(raw):
    return icalref.calendar_uid(raw)


def serial(ops, order, initial):
    """Sequential reference: -> (outcomes by op index, final state)."""
    state = dict(initial)
    outs = {}
    for i in order:
        op = ops[i]
        n = op["name"]
        if op["k"] == "put":
            u = uid_of(op["body"])
            if any(m != n and uid_of(r) == u for m, r in state.items()):
                outs[i] = "DuplicateUid"
            elif op.get("cond") and state.get(n) != initial.get(n):
                outs[i] = "InvalidETag"
            else:
                outs[i] = "ok"
                state[n] = op["body"]
        else:
            if n not in state:
                outs[i] = "NoSuchItem"
            elif op.get("cond") and state.get(n) != initial.get(n):
                outs[i] = "InvalidETag"
            else:
                outs[i] = "ok"
                del state[n]
    return outs, state


def stale_explanations(ops, initial, idxs, backend, must_see=None):
    """Known finding K6: each operation evaluates its checks (and, on bare stores, builds its tree)
    on a snapshot taken before it entered the critical section.  Yields (outcomes, final) pairs."""
    for order in itertools.permutations(idxs):
        # snapshot choice for op at position p: state after the first s commits, s <= p
        for snaps in itertools.product(*[range(p + 1) for p in range(len(order))]):
            # an operation can only have a stale view of operations it overlapped with: everything
            # that had finished before it started must be in its snapshot
            if must_see and any(not ((must_see.get(i, set()) & set(idxs)) <= set(order[: snaps[p]])) for p, i in enumerate(order)):
                continue
            for mode in (["merge", "clobber"] if backend == "bare" else ["merge"]):
                committed = [dict(initial)]
                outs = {}
                cur = dict(initial)
                for p, i in enumerate(order):
                    op = ops[i]
                    snap = committed[snaps[p]]
                    n = op["name"]
                    if op["k"] == "put":
                        u = uid_of(op["body"])
                        if any(m != n and uid_of(r) == u for m, r in snap.items()):
                            outs[i] = "DuplicateUid"
                        elif op.get("cond") and snap.get(n) != initial.get(n):
                            outs[i] = "InvalidETag"
                        else:
                            outs[i] = "ok"
                            base = dict(snap) if mode == "clobber" else cur
                            base = dict(base)
                            base[n] = op["body"]
                            cur = base
                    else:
                        if n not in snap:
                            outs[i] = "NoSuchItem"
                        elif op.get("cond") and snap.get(n) != initial.get(n):
                            outs[i] = "InvalidETag"
                        else:
                            outs[i] = "ok"
                            base = dict(snap) if mode == "clobber" else dict(cur)
                            base.pop(n, None)
                            cur = base
                    committed.append(dict(cur))
                yield outs, cur


def same_state(a, b):
    return set(a) == set(b) and all(a[n] == b[n] or icalref.same_calendar(a[n], b[n]) for n in a)


_ETAGS = {}


def expected_etag(backend, body):
    """ETag a put of `body` is answered with when nothing else runs (content hash: independent of the name)."""
    key = (backend, body)
    if key not in _ETAGS:
        d = tempfile.mkdtemp(prefix="xv05e-", dir=env.scratch_root())
        try:
            s = open_store(backend, os.path.join(d, "s"), create=True)
            _ETAGS[key] = s.import_one("probe.ics", "text/calendar", [body])[1]
            s.repo.close()
        finally:
            shutil.rmtree(d, ignore_errors=True)
    return _ETAGS[key]


def build_prior(backend, path):
    s = open_store(backend, path, create=True)
    etags = {}
    for n, raw in PRIOR.items():
        etags[n] = s.import_one(n, "text/calendar", [raw])[1]
    s.repo.close()
    return etags


def run_schedule(backend, sharing, ops, policy, prior_dir, etags, fine=True):
    """-> dict(outcomes, final, sched, violation)"""
    scratch = tempfile.mkdtemp(prefix="xv05-", dir=env.scratch_root())
    work = os.path.join(scratch, "s")
    try:
        shutil.copytree(prior_dir, work, symlinks=True)
        shared = open_store(backend, work) if sharing == "threads" else None
        stores = [shared or open_store(backend, work) for _ in ops]

        def mk(i, op):
            def fn():
                s = stores[i]
                if op["k"] == "put":
                    return s.import_one(op["name"], "text/calendar", [op["body"]], replace_etag=etags.get(op["name"]) if op.get("cond") else None)
                return s.delete_one(op["name"], etag=etags.get(op["name"]) if op.get("cond") else None)

            return fn

        sc = sched.Scheduler(work, policy, fine=fine)
        results = sc.run([mk(i, op) for i, op in enumerate(ops)])
        if sc.failed:
            return {"harness_error": sc.failed}
        outcomes = {}
        excs = {}
        answers = {}
        for i, (kind, val) in enumerate(results):
            if kind == "ok":
                outcomes[i] = "ok"
                answers[i] = val
            elif kind == "exc":
                outcomes[i] = outcome_class(val)
                excs[i] = repr(val)[:200]
            else:
                return {"harness_error": f"thread {i}: {kind}"}
        # re-open and read everything
        for s in set(id(x) for x in stores):
            pass
        try:
            fresh = open_store(backend, work)
            final = {}
            for name, ct, etag in fresh.iter_with_etag():
                final[name] = b"".join(fresh.get_file(name).content)
            fresh.repo.close()
        except Exception as e:
            return {"outcomes": outcomes, "final": None, "torn": f"{type(e).__name__}: {e}", "sched": sc, "excs": excs, "answers": answers}
        return {"outcomes": outcomes, "final": final, "sched": sc, "excs": excs, "answers": answers}
    finally:
        shutil.rmtree(scratch, ignore_errors=True)


def judge(backend, ops, r):
    """-> (verdict, detail): verdict in ok | K6 | violation:<sig>"""
    if r.get("torn"):
        return "violation:torn-state", f"after the schedule the store cannot be read completely: {r['torn']}"
    outcomes, final = r["outcomes"], r["final"]
    others = {i: o for i, o in outcomes.items() if o.startswith("other:")}
    locked = [i for i, o in outcomes.items() if o == "Locked"]
    active = [i for i in range(len(ops)) if i not in locked and i not in others]
    if others:
        # an answer no sequential execution gives
        i = sorted(others)[0]
        return f"violation:unexpected-exception:{others[i]}", f"operation {i} ({ops[i]['k']} {ops[i]['name']}) raised {r['excs'].get(i)}; outcomes {outcomes}"
    # the answer of a successful put is (name, ETag of the data *it* stored) in every sequential execution
    for i in active:
        if outcomes[i] == "ok" and ops[i]["k"] == "put":
            ans = (r.get("answers") or {}).get(i)
            want = expected_etag(backend, ops[i]["body"])
            if ans is not None and (ans[0] != ops[i]["name"] or ans[1] != want):
                return "violation:answer-of-no-sequential-execution", f"operation {i} (put {ops[i]['name']}) was answered {ans!r}; every sequential execution answers ({ops[i]['name']!r}, {want!r}); outcomes {outcomes}"
    for order in itertools.permutations(active):
        so, sf = serial(ops, order, PRIOR)
        if all(so[k] == outcomes[k] for k in active) and same_state(sf, final):
            return "ok", None
    must_see = r["sched"].finished_before_start() if r.get("sched") is not None else None
    stale_ok = True
    if backend == "bare" and r.get("sched") is not None and r["sched"].switch_marks:
        # K6 on bare stores is the window between reading the tree and dulwich reading the parent commit.
        # An operation that was pre-empted only *after* it had read the parent is refused (compare-and-swap
        # of the ref) if somebody else committed meanwhile - a lost update there is not the recorded defect.
        stale_ok = any(not m.get("parent_read") for _, m in r["sched"].switch_marks)
    for so, sf in (stale_explanations(ops, PRIOR, active, backend, must_see) if stale_ok else ()):
        if all(so[k] == outcomes[k] for k in active) and same_state(sf, final):
            return "K6", f"outcomes {outcomes}, final {sorted(final)}"
    names = {n: (final[n][-60:-30] if n in final else None) for n in sorted(set(final) | set(PRIOR))}
    # the three named consequences, for a readable signature
    oks = [i for i in active if outcomes[i] == "ok"]
    sig = "not-serialisable"
    if len([i for i in oks if ops[i].get("cond") and ops[i]["k"] == "put"]) >= 2 and len({ops[i]["name"] for i in oks}) == 1:
        sig = "two-conditional-updates-both-succeeded"
    elif any(ops[i]["k"] == "put" and (ops[i]["name"] not in final or not (final[ops[i]["name"]] == ops[i]["body"] or icalref.same_calendar(final[ops[i]["name"]], ops[i]["body"]))) for i in oks if not any(ops[j]["name"] == ops[i]["name"] for j in oks if j != i)):
        sig = "acknowledged-update-lost"
    uids = [uid_of(v) for v in final.values()]
    if len(set(uids)) != len(uids):
        sig = "duplicate-uid-in-store"
    return f"violation:{sig}", f"outcomes {outcomes} and final state {names} match no sequential execution (Locked: {locked})"


def count_points(backend, sharing, ops, prior_dir, etags, who, fine):
    """Run `who` first to completion and count its schedule points."""
    pol = sched.SegmentPolicy([(who, 10**9)])
    r = run_schedule(backend, sharing, ops, pol, prior_dir, etags, fine=fine)
    if "harness_error" in r:
        return None
    return r["sched"].points[who]


def enumerate_pair(backend, sharing, tname, ops, step, fine, bound2=False):
    """Yields (schedule descriptor, policy)."""
    scratch = tempfile.mkdtemp(prefix="xv05p-", dir=env.scratch_root())
    try:
        prior = os.path.join(scratch, "prior")
        etags = build_prior(backend, prior)
        n = len(ops)
        counts = [count_points(backend, sharing, ops, prior, etags, i, fine) for i in range(n)]
        results = []
        sequel = tname in TEMPLATES_SEQ
        for first in range(2 if sequel else n):
            others = [k for k in range(n) if k != first and not (sequel and k == 2)]
            nf = counts[first] or 0
            for i in range(0, nf + 1, step):
                if not bound2:
                    segs = [(first, i)] + [(o, 10**9) for o in others] + [(first, 10**9)] + ([(2, 10**9)] if sequel else [])
                    results.append(({"first": first, "at": [i]}, segs))
                else:
                    no = counts[others[0]] or 0
                    for j in range(1, no + 1, step):
                        segs = [(first, i), (others[0], j), (first, 10**9), (others[0], 10**9)]
                        results.append(({"first": first, "at": [i, j]}, segs))
        return prior, etags, results, scratch
    except Exception:
        shutil.rmtree(scratch, ignore_errors=True)
        raise


def unit(shard, units, step):
    """units: list of (backend, sharing, tname, kind) work units; each shard takes a slice."""
    out = {"evaluations": 0, "nontrivial": set(), "violations": {}, "errors": [], "known": collections.Counter(), "stats": collections.Counter(), "samples": []}
    for ui, (backend, sharing, tname, kind) in enumerate(units):
        if ui % runner.NSHARDS != shard:
            continue
        ops = template_ops(tname)
        fine = kind != "bound2"
        try:
            # two pre-emptions: every 12th pair of file-system points per axis (all pairs would be ~6.5 million schedules)
            prior, etags, scheds, scratch = enumerate_pair(backend, sharing, tname, ops, step * 12 if kind == "bound2" else step, fine, bound2=(kind == "bound2"))
        except Exception:
            import traceback

            out["errors"].append(traceback.format_exc())
            continue
        try:
            for desc, segs in scheds:
                r = run_schedule(backend, sharing, ops, sched.SegmentPolicy(segs), prior, etags, fine=fine)
                if "harness_error" in r:
                    out["stats"]["inconclusive-schedules"] += 1
                    continue
                out["evaluations"] += 1
                sc = r["sched"]
                verdict, detail = judge(backend, ops, r)
                key = f"{tname}|{sharing}|{backend}|{kind}|{desc['first']}|{desc['at']}"
                if sc.switches >= 1 and all(p > 0 for p in sc.points):
                    out["nontrivial"].add(key)
                out["stats"][f"verdict:{verdict.split(':')[0]}"] += 1
                if len(out["samples"]) < 1 and sc.switches:
                    out["samples"].append({"template": tname, "backend": backend, "sharing": sharing, "schedule": desc, "switch_log": [list(map(str, x)) for x in sc.log[:4]], "outcomes": r["outcomes"]})
                if verdict in ("K6",):
                    out["known"][verdict] += 1
                elif verdict != "ok":
                    sig = f"{backend}:{sharing}:{verdict.split(':', 1)[1]}"
                    if sig not in out["violations"]:
                        out["violations"][sig] = (f"{tname} on {backend} ({sharing}), schedule {desc} [{kind}], switches at {sc.log[:3]}: {detail}", {"engine": "sched", "backend": backend, "sharing": sharing, "template": tname, "kind": kind, "segments": segs})
        finally:
            shutil.rmtree(scratch, ignore_errors=True)
    out["stats"] = dict(out["stats"])
    return out


def random_shard(shard, seed, examples):
    from hypothesis import HealthCheck, Phase, given, settings
    from hypothesis import seed as hseed

    out = {"evaluations": 0, "nontrivial": set(), "violations": {}, "errors": [], "known": collections.Counter(), "stats": collections.Counter(), "samples": []}
    cases = st.tuples(st.sampled_from(["tree", "bare"]), st.sampled_from(["threads", "processes"]), st.sampled_from(sorted(TEMPLATES) + sorted(TEMPLATES3) + sorted(TEMPLATES_SEQ)), st.lists(st.integers(0, 4), min_size=5, max_size=400), st.integers(0, 2))
    scratch = tempfile.mkdtemp(prefix="xv05r-", dir=env.scratch_root())
    priors = {}
    for b in ("tree", "bare"):
        p = os.path.join(scratch, b)
        priors[b] = (p, build_prior(b, p))

    @settings(max_examples=examples, database=None, deadline=None, phases=[Phase.generate], suppress_health_check=list(HealthCheck))
    @hseed(seed * 1000 + shard)
    @given(cases)
    def prop(case):
        backend, sharing, tname, choices, start = case
        ops = template_ops(tname)
        prior, etags = priors[backend]
        r = run_schedule(backend, sharing, ops, sched.ListPolicy(choices, len(ops), start), prior, etags, fine=True)
        if "harness_error" in r:
            out["stats"]["inconclusive-schedules"] += 1
            return
        out["evaluations"] += 1
        sc = r["sched"]
        verdict, detail = judge(backend, ops, r)
        if sc.switches >= 1 and all(p > 0 for p in sc.points):
            out["nontrivial"].add(hashlib.sha1(json.dumps([backend, sharing, tname, choices, start]).encode()).hexdigest())
        out["stats"][f"verdict:{verdict.split(':')[0]}"] += 1
        out["stats"]["switches"] += sc.switches
        if verdict in ("K6",):
            out["known"][verdict] += 1
        elif verdict != "ok":
            sig = f"{backend}:{sharing}:{verdict.split(':', 1)[1]}"
            if sig not in out["violations"]:
                out["violations"][sig] = (f"{tname} on {backend} ({sharing}), random schedule with {sc.switches} switches: {detail}", {"engine": "sched-random", "backend": backend, "sharing": sharing, "template": tname, "choices": choices, "start": start})

    try:
        prop()
    except Exception:
        import traceback

        out["errors"].append(traceback.format_exc())
    finally:
        shutil.rmtree(scratch, ignore_errors=True)
    out["stats"] = dict(out["stats"])
    return out


def main(tier, seed):
    res = runner.CheckResult(ID, tier, seed)
    res.rule = RULE
    units = []
    for backend in ("tree", "bare"):
        for sharing in ("threads", "processes"):
            for tname in sorted(TEMPLATES) + sorted(TEMPLATES_SEQ):
                units.append((backend, sharing, tname, "bound1"))
            if tier == "thorough":
                for tname in sorted(TEMPLATES):
                    units.append((backend, sharing, tname, "bound2"))
                for tname in sorted(TEMPLATES3):
                    units.append((backend, sharing, tname, "bound1"))
    # interleave so that shards get balanced work
    shards = runner.run_shards(unit, units=units, step=3 if tier == "quick" else 1)
    shards += runner.run_shards(random_shard, seed=seed, examples=25 if tier == "quick" else 320)
    stats = collections.Counter()
    for sr in shards:
        if "error" in sr:
            res.errors.append(sr["error"])
            continue
        res.evaluations += sr["evaluations"]
        res.nontrivial |= sr["nontrivial"]
        res.errors.extend(sr["errors"])
        res.known.update(sr["known"])
        stats.update(sr["stats"])
        for s in sr["samples"]:
            if len(res.samples) < 3:
                res.samples.append(s)
        for sig, (detail, rep) in sr["violations"].items():
            res.add_violation(sig, detail, rep)
    res.extra["stats"] = dict(stats)
    res.extra["work_units"] = len(units)
    if stats.get("inconclusive-schedules", 0) > res.evaluations // 10:
        res.errors.append(f"too many inconclusive schedules: {stats.get('inconclusive-schedules')}")
    res.assumptions = [
        "pre-emption at source-line (xandikos/store) and file-system-call granularity, not at bytecode granularity; true multi-core parallelism is replaced by a harness-owned sequentialised schedule",
        "'separate processes' are modelled by separate Store/Repo objects on one directory, run as threads so that the harness owns the schedule",
        "schedules that dead-lock in the harness (a thread waiting for a Python-level lock held by a suspended thread) are inconclusive, not violations",
    ]
    return res


def replay(obj):
    ops = template_ops(obj["template"])
    scratch = tempfile.mkdtemp(prefix="xv05x-", dir=env.scratch_root())
    try:
        prior = os.path.join(scratch, "prior")
        etags = build_prior(obj["backend"], prior)
        if obj.get("engine") == "sched-random":
            pol = sched.ListPolicy(obj["choices"], len(ops), obj["start"])
            fine = True
        else:
            pol = sched.SegmentPolicy([tuple(s) for s in obj["segments"]])
            fine = obj.get("kind") != "bound2"
        r = run_schedule(obj["backend"], obj["sharing"], ops, pol, prior, etags, fine=fine)
        if "harness_error" in r:
            return True, "inconclusive: " + r["harness_error"]
        verdict, detail = judge(obj["backend"], ops, r)
        return verdict in ("ok", "K6"), detail
    finally:
        shutil.rmtree(scratch, ignore_errors=True)
