"""C10 — query results do not depend on the query history (index transparency)."""
import collections
import hashlib
import json

from hypothesis import strategies as st

from .. import dav, filterref, gen, icalref, runner
from ..machine import body_of, enc_body
from ..world import World
from . import c11

ID = "C10"
RULE = (
    "A generated calendar (4-10 objects incl. objects with several components of one type - recurrence overrides, two VEVENTs/VTODOs with different times - and 1-2 unparseable stored files injected "
    "with an application/octet-stream PUT) and a program of {query with one of 3-5 generated filters, write, overwrite, delete, restart} in which every filter is repeated past the indexing threshold and "
    "filters are interleaved so that the index is created, reset and extended; 'flip' sequences take a member to its other version and back with index-path queries at each stage; a third of the calendars hold an event in a zone at offset zero that is not UTC (Europe/London in January) with time-ranges at its instants and a non-UTC request time zone. The same program runs against four servers with index_threshold 0, 1, default(5) and 10^9 (index never used); through "
    "Store.iter_with_filter the same is done on tree-git, bare-git and vdir stores. Oracle (differential/metamorphic, independent of RFC correctness): at every query all configurations return the same "
    "set of names, serve the same data for each name (calendar-data / file content, compared by hash), and none answers with an error while another answers with a result; the never-indexing configuration is the 'fresh, never queried' reference. Non-trivial program: some filter was "
    "evaluated through the index path and a write happened between two index-path evaluations of the same filter; distinct by program hash."
)

THRESHOLDS = [0, 1, None, 10**9]


@st.composite
def multi_component_object(draw, uid):
    """Two components of the same type with different times in one resource (override / second VTODO)."""
    kind = draw(st.sampled_from(["VEVENT", "VTODO"]))
    y1, y2 = draw(st.sampled_from([(2019, 2021), (2020, 2022), (2021, 2019)]))
    L = ["BEGIN:VCALENDAR", "VERSION:2.0", "PRODID:-//xv//multi//EN"]
    for i, y in enumerate((y1, y2)):
        L += [f"BEGIN:{kind}", f"UID:{uid}", "DTSTAMP:20200101T000000Z"]
        if kind == "VEVENT":
            L += [f"DTSTART:{y}0310T100000Z", f"DTEND:{y}0310T110000Z", f"SUMMARY:part {i} of {uid}"]
        else:
            L += [f"DTSTART:{y}0310T100000Z", f"DUE:{y}0311T100000Z", f"SUMMARY:part {i} of {uid}"] + (["STATUS:COMPLETED"] if i else [])
        if i:
            L.append(f"RECURRENCE-ID:{y}0310T100000Z")
        if draw(st.booleans()):
            L.append(draw(st.sampled_from(["LOCATION:Room 1", "CATEGORIES:work", "CLASS:PRIVATE"])))
        L.append(f"END:{kind}")
    L += ["END:VCALENDAR", ""]
    return "\r\n".join(L).encode()


@st.composite
def program(draw):
    plain = {"eol": "\r\n", "fold": 0, "case": "upper", "shuffle": 0, "final_eol": True}
    names = [f"o{i}.ics" for i in range(draw(st.integers(4, 8)))]
    bodies = {}
    for i, n in enumerate(names):
        if draw(st.integers(0, 3)) == 0:
            bodies[n] = draw(multi_component_object(f"m{i}"))
        else:
            bodies[n] = draw(gen.calendar_object(uid=f"q{i}", style=plain))["raw"]
    alt = {n: draw(gen.calendar_object(uid=f"q{i}", style=plain))["raw"] for i, n in enumerate(names)}
    zero = None
    if draw(st.integers(0, 2)) == 0:
        # an event in a zone whose offset is zero at that date without being UTC: its instants must not be
        # mistaken for floating or UTC text anywhere between the file and the index
        zone = draw(st.sampled_from(["Europe/London", "Atlantic/Reykjavik", "Africa/Abidjan"]))
        day, hour = draw(st.integers(2, 27)), draw(st.integers(1, 20))
        mk = lambda h: ("BEGIN:VCALENDAR\r\nVERSION:2.0\r\nPRODID:-//xv//EN\r\nBEGIN:VEVENT\r\nUID:lz\r\nDTSTAMP:20200101T000000Z\r\nDTSTART;TZID=%s:202001%02dT%02d0000\r\nDTEND;TZID=%s:202001%02dT%02d0000\r\nSUMMARY:zero offset\r\nEND:VEVENT\r\nEND:VCALENDAR\r\n" % (zone, day, h, zone, day, h + 1)).encode()  # noqa: E731
        zero = mk(hour)
        names.append("lz.ics")
        bodies["lz.ics"] = zero
        alt["lz.ics"] = mk(hour + 2)
    objs = list(bodies.values()) + list(alt.values())
    filters = []
    for _ in range(draw(st.integers(3, 5))):
        top = {"name": "VCALENDAR", "comps": [draw(c11.comp_filter(objs))]}
        filters.append(top)
    for _ in range(draw(st.integers(0, 2))):
        ff = draw(c11.focused_text_filter(objs))  # search by text, needle around an escaped character
        if ff is not None:
            filters.append(ff)
    for _ in range(draw(st.integers(0, 2))):
        ff = draw(c11.focused_time_filter(objs))  # a range that begins or ends at an instant of an existing component
        if ff is not None:
            filters.append(ff)
    if zero is not None:
        for _ in range(2):
            ff = draw(c11.focused_time_filter([zero]))
            if ff is not None:
                filters.append(ff)
    for _ in range(draw(st.integers(0, 2))):
        ff = draw(c11.focused_presence_filter(objs))  # presence tests on properties that exist, also with empty / zero values
        if ff is not None:
            filters.append(ff)
    # common client queries: events in a time range, open to-dos
    if draw(st.booleans()):
        filters.append({"name": "VCALENDAR", "comps": [{"name": "VEVENT", "time_range": ["20200101T000000Z", "20201231T000000Z"]}]})
    if draw(st.booleans()):
        filters.append({"name": "VCALENDAR", "comps": [{"name": "VTODO", "props": [{"name": "COMPLETED", "is_not_defined": True}, {"name": "STATUS", "text_match": {"text": "CANCELLED", "collation": None, "negate": True}}]}]})
    steps = []
    for n in names:
        steps.append({"op": "put", "name": n, "body": enc_body(bodies[n])})
    for j in range(draw(st.integers(0, 2))):
        steps.append({"op": "put-raw", "name": f"broken{j}.ics", "body": enc_body(draw(st.sampled_from([b"this is not a calendar", b"BEGIN:VCALENDAR\r\nBEGIN:VEVENT\r\nSUMMARY:unterminated", b"\xff\xfe\x00binary"])))})
    for _ in range(draw(st.integers(8, 20))):
        op = draw(st.sampled_from(["burst", "burst", "burst", "query", "query", "put", "delete", "restart", "put-raw", "repair", "flip", "flip"]))
        if op == "flip":
            # a member goes to its other version and back, with index-path queries of one filter at each stage
            n = draw(st.sampled_from(names))
            f = draw(st.integers(0, len(filters) - 1))
            first = draw(st.booleans())
            for body in ((bodies[n], alt[n], bodies[n]) if first else (alt[n], bodies[n], alt[n])):
                steps.append({"op": "put", "name": n, "body": enc_body(body)})
                steps.append({"op": "query", "filter": f, "repeat": draw(st.integers(2, 7))})
            continue
        if op == "burst":
            steps.append({"op": "query", "filter": draw(st.integers(0, len(filters) - 1)), "repeat": draw(st.integers(2, 8))})
        elif op == "query":
            steps.append({"op": "query", "filter": draw(st.integers(0, len(filters) - 1)), "repeat": 1})
        elif op == "put":
            n = draw(st.sampled_from(names))
            steps.append({"op": "put", "name": n, "body": enc_body(draw(st.sampled_from([bodies[n], alt[n]])))})
        elif op == "delete":
            steps.append({"op": "delete", "name": draw(st.sampled_from(names))})
        elif op == "put-raw":
            steps.append({"op": "put-raw", "name": "broken9.ics", "body": enc_body(b"garbage " + str(draw(st.integers(0, 3))).encode())})
        elif op == "repair":
            # an unparseable stored file is replaced by a valid object under the same name
            bn = draw(st.sampled_from(["broken0.ics", "broken1.ics", "broken9.ics"]))
            steps.append({"op": "delete", "name": bn})
            steps.append({"op": "put", "name": bn, "body": enc_body(draw(gen.calendar_object(uid="repaired-" + bn[6], style=plain))["raw"])})
        else:
            steps.append({"op": "restart"})
    return {"filters": filters, "steps": steps, "tz": draw(st.sampled_from(["UTC", "Europe/Amsterdam"] if zero is None else ["Europe/Amsterdam", "Europe/Amsterdam", "America/New_York"])), "engine": draw(st.sampled_from(["http", "http", "store"]))}


class HttpConfig:
    def __init__(self, thr):
        self.world = World(index_threshold=thr)
        self.thr = thr
        self.coll = "/user/calendars/q"
        self.world.request("wsgi", "MKCALENDAR", self.coll)

    def put(self, name, raw, ctype="text/calendar"):
        return dav.acknowledged(self.world.request("wsgi", "PUT", self.coll + "/" + name, [("Content-Type", ctype)], raw))

    def delete(self, name):
        return dav.acknowledged(self.world.request("wsgi", "DELETE", self.coll + "/" + name))

    def restart(self):
        self.world.restart()

    def query(self, flt, tz):
        import hashlib

        self.last_data = None
        r = c11.query(self.world, "wsgi", self.coll, flt, tz, data=True)
        got, ms = c11.result_names(r)
        if got is None:
            return ("error", (r.exc or str(r.status)).split("@")[-1].strip()[:80])
        # what is served for each result is part of the result: compared between the configurations
        self.last_data = {n: (hashlib.sha1(d.encode("utf-8", "surrogatepass")).hexdigest()[:12] if d is not None else None) for n, d in got.items()}
        return ("ok", tuple(sorted(got)))

    def index_used(self):
        from xandikos import web

        try:
            store = web.open_store_from_path(self.world.fs_path(self.coll), double_check_indexes=False, index_threshold=self.thr)
            return sorted(store.index.available_keys())
        except Exception:
            return []

    def close(self):
        self.world.close()


class StoreConfig:
    def __init__(self, kind, thr):
        import os
        import tempfile

        from .. import env
        from ..storemachine import open_store

        self.kind, self.thr = kind, thr
        self.dir = tempfile.mkdtemp(prefix="xv10-", dir=env.scratch_root())
        self.path = os.path.join(self.dir, "s")
        self.store = open_store(kind, self.path, create=True)
        self._apply_thr()

    def _apply_thr(self):
        from xandikos.store.index import AutoIndexManager

        if self.thr is not None:
            self.store.index_manager = AutoIndexManager(self.store.index, threshold=self.thr)

    def put(self, name, raw, ctype="text/calendar"):
        try:
            self.store.import_one(name, ctype, [raw])
            return True
        except Exception:
            return False

    def delete(self, name):
        try:
            self.store.delete_one(name)
            return True
        except Exception:
            return False

    def restart(self):
        from ..storemachine import open_store

        if self.kind != "mem":
            self.store = open_store(self.kind, self.path)
            self._apply_thr()

    def query(self, flt, tz):
        import xml.etree.ElementTree as ET
        from zoneinfo import ZoneInfo

        from xandikos import caldav
        from xandikos.icalendar import CalendarFilter

        el = ET.fromstring(f'<C:filter xmlns:C="{dav.CAL}">' + filterref.comp_filter_xml(flt) + "</C:filter>")
        try:
            f = caldav.parse_filter(el, CalendarFilter(ZoneInfo(tz)))
            import hashlib

            self.last_data = None
            hits = [(n, hashlib.sha1(b"".join(fi.content)).hexdigest()[:12]) for n, fi, etag in self.store.iter_with_filter(f)]
            self.last_data = dict(hits)
            return ("ok", tuple(sorted(n for n, _ in hits)))
        except Exception as e:
            import os
            import traceback

            fr = [x for x in traceback.extract_tb(e.__traceback__) if "xandikos" in x.filename]
            return ("error", f"{type(e).__name__} @ {os.path.basename(fr[-1].filename)}:{fr[-1].lineno}" if fr else type(e).__name__)

    def index_used(self):
        return sorted(self.store.index.available_keys())

    def close(self):
        import shutil

        shutil.rmtree(self.dir, ignore_errors=True)


def run_program(prog):
    from .. import findings

    if prog["engine"] == "http":
        configs = [HttpConfig(t) for t in THRESHOLDS]
        labels = [f"http:thr={t}" for t in THRESHOLDS]
    else:
        configs = [StoreConfig(k, t) for k in ("tree", "bare", "vdir") for t in (0, None)] + [StoreConfig("tree", 10**9)]
        labels = [f"{k}:thr={t}" for k in ("tree", "bare", "vdir") for t in (0, None)] + ["tree:thr=1e9"]
    ref = len(configs) - 1  # the never-indexing configuration
    out = {"ok": True, "violation": None, "known": collections.Counter(), "stats": collections.Counter(), "labels": []}
    index_evals = collections.Counter()  # filter idx -> index-path evaluations so far
    write_between = False
    nontrivial = False
    wrote_since = collections.defaultdict(bool)
    current = {}
    try:
        for si, step in enumerate(prog["steps"]):
            op = step["op"]
            if op in ("put", "put-raw"):
                raw = body_of(step)
                acks = [c.put(step["name"], raw, "text/calendar" if op == "put" else "application/octet-stream") for c in configs]
                if len(set(acks)) != 1:
                    out["ok"] = False
                    out["violation"] = {"oracle": "index", "sig": "write-outcome-differs", "detail": f"step {si}: PUT {step['name']} acknowledged {dict(zip(labels, acks))}"}
                    return out
                if acks[0]:
                    current[step["name"]] = raw
                    out["stats"]["writes"] += 1
                    for k in list(wrote_since):
                        wrote_since[k] = True
                    if op == "put-raw":
                        out["stats"]["unparseable-stored"] += 1
            elif op == "delete":
                acks = [c.delete(step["name"]) for c in configs]
                if acks[0]:
                    current.pop(step["name"], None)
                    out["stats"]["writes"] += 1
                    for k in list(wrote_since):
                        wrote_since[k] = True
            elif op == "restart":
                for c in configs:
                    c.restart()
                out["stats"]["restarts"] += 1
            else:
                flt = prog["filters"][step["filter"]]
                for rep in range(step["repeat"]):
                    results = [c.query(flt, prog["tz"]) for c in configs]
                    out["stats"]["queries"] += 1
                    used = [bool(c.index_used()) for c in configs[:-1]]
                    if any(used):
                        out["stats"]["queries-with-index-present"] += 1
                        if wrote_since.get(step["filter"]):
                            nontrivial = True
                        wrote_since[step["filter"]] = False
                    if len(set(results)) != 1:
                        kf = findings.c10_known(flt, results, labels, ref, current)
                        if kf:
                            out["known"][kf] += 1
                            continue
                        base = results[ref]
                        bad = [(labels[i], r) for i, r in enumerate(results) if r != base]
                        kind = "error-vs-result" if any(r[0] == "error" for r in results) else "different-result"
                        out["ok"] = False
                        where = bad[0][1][1] if bad[0][1][0] == "error" else (base[1] if base[0] == "error" else "")
                        out["violation"] = {"oracle": "index", "sig": f"{kind}:{where or c11.filter_shape(flt)}", "detail": f"step {si} repetition {rep}: filter {json.dumps(flt)}: never-indexing configuration says {base}, but {bad}"}
                        return out
                    if results[0][0] == "error":
                        out["stats"]["queries-all-error"] += 1
                    else:
                        datas = [getattr(c, "last_data", None) for c in configs]
                        out["stats"]["queries-data-compared"] += 1
                        for i, d in enumerate(datas):
                            if d != datas[ref]:
                                diff = sorted(n for n in set(d or {}) | set(datas[ref] or {}) if (d or {}).get(n) != (datas[ref] or {}).get(n))
                                out["ok"] = False
                                out["violation"] = {"oracle": "index", "sig": f"different-data:{c11.filter_shape(flt)}", "detail": f"step {si} repetition {rep}: filter {json.dumps(flt)}: same result names but the data served for {diff} differs between the never-indexing configuration and {labels[i]}"}
                                return out
        out["nontrivial"] = nontrivial
        out["labels"] = ["engine:" + prog["engine"]] + (["index-used"] if out["stats"].get("queries-with-index-present") else [])
        return out
    finally:
        for c in configs:
            c.close()


def run_one(prog):
    r = run_program(prog)
    r["key"] = hashlib.sha1(json.dumps(prog, sort_keys=True).encode()).hexdigest()
    r["size"] = len(prog["steps"])
    r["sample"] = prog
    r["stats"] = dict(r["stats"])
    r["known"] = dict(r["known"])
    r.setdefault("nontrivial", False)
    return r


def strategy():
    return program()


def still_fails(sig):
    def f(p):
        r = run_program(p)
        return (not r["ok"]) and r["violation"]["sig"] == sig

    return f


def main(tier, seed):
    res = runner.CheckResult(ID, tier, seed)
    res.rule = RULE
    shards = runner.run_shards(runner.machine_shard, seed=seed, examples=20 if tier == "quick" else 150, strategy_factory=strategy, run_one=run_one)
    viols = runner.merge_machine(res, shards)
    for sig, v in viols.items():
        case = v["case"]
        wrapped = {"config": {k: case[k] for k in ("filters", "tz", "engine")}, "steps": case["steps"]}

        def sf(p, sig=sig):
            return still_fails(sig)(dict(p["config"], steps=p["steps"]))

        small = runner.ddmin_steps(wrapped, sf, budget=60 if tier == "quick" else 200)
        prog = dict(small["config"], steps=small["steps"])
        rr = run_program(prog)
        res.add_violation(sig, (rr["violation"] or v["violation"])["detail"], {"engine": "c10", "program": prog})
    st_ = res.extra.get("stats", {})
    if not st_.get("queries-with-index-present"):
        res.errors.append("vacuity guard: the index path was never taken")
    res.assumptions = ["the configuration with index_threshold=10^9 never builds an index and serves as the fresh, never-queried reference", "filters come from the C11 grammar; whether the common answer is RFC-correct is C11's subject"]
    return res


def replay(obj):
    r = run_program(obj["program"])
    return r["ok"], (r["violation"] or {}).get("detail")
