"""C15 — collection properties read back as written, persist, and stay separate."""
import hashlib

from hypothesis import strategies as st

from .. import gen, gen_prog
from ..machine import P_RT, P_ABCOLOR, P_ABDESC, P_CALCOLOR, P_CALDESC, P_CALORDER, P_COMMENT, P_DISPLAYNAME, P_REFRESH, enc_body
from ._machine import MachineCheck

ID = "C15"
RULE = (
    "Generated histories over a calendar, an address book, a plain collection and a pre-seeded bare calendar (git-config or file metadata) of PROPPATCH set/remove, extended MKCOL / MKCALENDAR "
    "with properties, member writes, reads and restarts. Values: free text over an alphabet weighted towards configuration-file metacharacters (%, %%, %(x)s, quotes, brackets, '#', ';', '=', ':', "
    "backslash, inner spaces/tabs/newlines, non-ASCII, XML specials), 1-40 chars, no leading/trailing white space, no CR, ';' excluded for the git-config back end; colours #RRGGBB[AA]; orders as "
    "decimal integers. After every step every settable property of every collection is read with PROPFIND and must equal the model (value of the last acknowledged set; nothing after an acknowledged "
    "remove); members and other collections are covered by the content audit. Non-trivial case: a (property, value) pair whose value contains a metacharacter and that was read back after a restart "
    "in a program that set properties on >=2 collections; distinct by (property, value)."
)

META = ["%", "%%", "%(x)s", "%s", '"', "'", "[", "]", "#", ";", "=", ":", "\\", " ", "\t", "\n", "&", "<", ">", "é", "日", "ß", "$", "${x}", "\n#", "\n;", " #", " ;"]
PLAIN = list("abcXYZ019")


@st.composite
def free_text(draw, allow_semicolon=True):
    toks = draw(st.lists(st.one_of(st.sampled_from(PLAIN), st.sampled_from(META)), min_size=1, max_size=14))
    s = "".join(toks)
    if not allow_semicolon:
        s = s.replace(";", ",")
    s = s.strip()
    return s or "v"


def has_meta(v):
    return any(m in v for m in META if m not in (" ",))


@st.composite
def one_set(draw, allow_semicolon=True):
    name = draw(st.sampled_from([P_DISPLAYNAME, P_DISPLAYNAME, P_COMMENT, P_COMMENT, P_CALCOLOR, P_CALORDER, P_ABDESC, P_ABDESC, P_ABCOLOR, P_CALDESC, P_REFRESH]))
    if name in (P_CALCOLOR, P_ABCOLOR):
        v = "#" + "".join(draw(st.lists(st.sampled_from(list("0123456789abcdefABCDEF")), min_size=6, max_size=6))) + draw(st.sampled_from(["", "", "80", "FF"]))
    elif name == P_CALORDER:
        v = str(draw(st.integers(0, 100000)))
    else:
        v = draw(free_text(allow_semicolon))
    return [name, v]


UNKNOWN_PROPS = ["{http://example.com/ns/xv/}nickname", "{http://example.com/ns/xv/}sort-key", "{DAV:}xv-unknown"]


@st.composite
def props_program(draw):
    cfg = {"prefix": draw(st.sampled_from(gen_prog.PREFIXES)), "seed": []}
    bmeta = draw(st.sampled_from(["config", "file", None]))
    if bmeta:
        cfg["seed"].append({"slot": "b1", "bare": True, "meta": bmeta, "kind": "calendar"})
    sparse = draw(st.integers(0, 2)) == 0
    if sparse:
        cfg["audit"] = "sparse"  # properties are read back only at AUDIT steps, restarts and the end
    ics = [draw(gen.member_name(".ics", fancy=False)) for _ in range(2)]
    bodies = [draw(gen.calendar_object(uid=u))["raw"] for u in ("u1", "u2")]
    steps = [
        {"op": "MKCOL", "fe": draw(gen_prog.FE), "coll": "c1", "kind": draw(st.sampled_from(["mkcalendar", "ext-calendar"])), "props": [draw(one_set()) for _ in range(draw(st.integers(0, 2)))], "xml": True},
        {"op": "MKCOL", "fe": draw(gen_prog.FE), "coll": "a1", "kind": "ext-addressbook", "props": [draw(one_set()) for _ in range(draw(st.integers(0, 2)))]},
        {"op": "MKCOL", "fe": draw(gen_prog.FE), "coll": "x1", "kind": "plain"},
    ]
    colls = ["c1", "c1", "a1", "a1", "x1"] + (["b1", "b1"] if bmeta else [])
    last_set = {}
    for _ in range(draw(st.integers(8, 22))):
        op = draw(st.sampled_from(["SET"] * 8 + ["REMOVE", "REMOVE", "PUT", "DELETE", "RESTART", "RESTART", "MKCOL", "MKCOL", "PROPFIND", "RETYPE", "RESPELL", "RESPELL"]))
        fe = draw(gen_prog.FE)
        afe = draw(st.sampled_from(["wsgi", "aio"]))
        coll = draw(st.sampled_from(colls))
        semi = not (coll == "b1" and bmeta == "config")
        if op == "RESPELL":
            # a value set earlier is set again in another spelling that differs only in letter case, or with a
            # character appended or dropped: the new spelling is what must be read back
            earlier = [(c_, k_, v_) for (c_, k_), v_ in sorted(last_set.items())]
            if not earlier:
                op = "SET"
            else:
                c_, k_, v_ = draw(st.sampled_from(earlier))
                v2 = draw(st.sampled_from([v_.swapcase(), v_.upper(), v_.lower()]))
                if k_ not in (P_CALCOLOR, P_ABCOLOR, P_CALORDER) and draw(st.booleans()):
                    v2 = draw(st.sampled_from([v_ + "x", v_[:-1] or "y", v_.title()]))
                if v2 != v_ and v2.strip() == v2 and v2:
                    steps.append({"op": "PROPPATCH", "fe": fe, "afe": afe, "coll": c_, "set": [[k_, v2]], "remove": []})
                    last_set[(c_, k_)] = v2
                    gen_prog.wrap_locked(draw, steps, 0)
                    continue
                op = "SET"
        if op == "SET":
            sets = [draw(one_set(semi)) for _ in range(draw(st.sampled_from([1, 1, 2])))]
            for k_, v_ in sets:
                last_set[(coll, k_)] = v_
            if draw(st.integers(0, 3)) == 0:
                # properties the server does not know mixed in, all inside one DAV:prop (or each in its own DAV:set)
                instr = [["set", k_, v_] for k_, v_ in sets]
                instr.insert(draw(st.integers(0, len(instr))), ["set", draw(st.sampled_from(UNKNOWN_PROPS)), draw(st.sampled_from(["Other", "", "zz top"]))])
                steps.append({"op": "PROPPATCH", "fe": fe, "afe": afe, "coll": coll, "instr": instr, "grouped": draw(st.booleans())})
            else:
                steps.append({"op": "PROPPATCH", "fe": fe, "afe": afe, "coll": coll, "set": sets, "remove": []})
        elif op == "REMOVE":
            if draw(st.booleans()):
                steps.append({"op": "PROPPATCH", "fe": fe, "afe": afe, "coll": coll, "set": [], "remove": [draw(one_set())[0]]})
            else:
                # several instructions on one property in document order: remove-then-set ("reset"), set-then-remove, set-set
                k, v = draw(one_set(semi))
                k2, v2 = k, draw(one_set(semi))[1] if k not in (P_CALCOLOR, P_ABCOLOR, P_CALORDER) else v
                pattern = draw(st.sampled_from([["remove", "set"], ["set", "remove"], ["set", "remove", "set"], ["remove", "set", "remove"], ["set", "set"]]))
                instr = []
                for i, what in enumerate(pattern):
                    instr.append(["set", k, v if i % 2 == 0 else v2] if what == "set" else ["remove", k])
                steps.append({"op": "PROPPATCH", "fe": fe, "afe": afe, "coll": coll, "instr": instr})
        elif op == "PUT":
            steps.append({"op": "PUT", "fe": fe, "afe": afe, "coll": draw(st.sampled_from(["c1", "b1"] if bmeta else ["c1"])), "name": draw(st.sampled_from(ics)), "ctype": "text/calendar", "body": enc_body(draw(st.sampled_from(bodies))), "cond": []})
        elif op == "DELETE":
            steps.append({"op": "DELETE", "fe": fe, "afe": afe, "coll": "c1", "name": draw(st.sampled_from(ics)), "cond": []})
        elif op == "MKCOL":
            kind = draw(st.sampled_from(["ext-calendar", "mkcalendar", "ext-addressbook"]))
            slot = draw(st.sampled_from(["c2", "n1"]))
            # resourcetype anywhere among the properties, each in its own DAV:set or all in one DAV:prop
            mprops = [draw(one_set()) for _ in range(draw(st.integers(1, 3)))]
            if draw(st.integers(0, 3)) == 0:
                mprops.insert(draw(st.integers(0, len(mprops))), [draw(st.sampled_from(UNKNOWN_PROPS)), "Other"])
            steps.append({"op": "MKCOL", "fe": fe, "afe": afe, "coll": slot, "kind": kind, "props": mprops, "rt_pos": draw(st.integers(0, 3)), "one_prop": draw(st.booleans())})
            colls.append(slot)
        elif op == "RETYPE":
            # resourcetype set again to the type the collection has, alone or among other instructions
            k, v = draw(one_set(semi))
            instr = draw(st.sampled_from([[["set", P_RT, "@same"]], [["set", k, v], ["set", P_RT, "@same"]], [["set", P_RT, "@same"], ["set", k, v]]]))
            steps.append({"op": "PROPPATCH", "fe": fe, "afe": afe, "coll": coll, "instr": instr})
        elif op == "PROPFIND":
            steps.append({"op": "PROPFIND", "fe": fe, "afe": afe, "coll": coll, "depth": draw(st.sampled_from([0, 1])), "allprop": draw(st.booleans())})
        else:
            steps.append({"op": "RESTART"})
        gen_prog.wrap_locked(draw, steps, 9)  # a PROPPATCH refused as locked changes nothing
        if sparse and draw(st.integers(0, 5)) == 0:
            steps.append({"op": "AUDIT"})
    return {"config": cfg, "steps": steps}


def strategy():
    return props_program()


def nontrivial(program, stt, r):
    if not stt.get("props:readback-after-restart") or not stt.get("restarts"):
        return []
    colls_with_sets = set()
    keys = []
    seen_restart_after = False
    pending = []
    for s in program["steps"]:
        if s["op"] in ("PROPPATCH", "MKCOL"):
            for k, v in s.get("set", []) + s.get("props", []):
                pending.append((s["coll"], k, v))
        if s["op"] == "RESTART":
            for coll, k, v in pending:
                mc = None
                from ..machine import SLOTS

                mc = r.model.colls.get(SLOTS[coll])
                if mc is not None and mc.props.get(k) == v and has_meta(v):
                    keys.append(hashlib.sha1(repr((k, v)).encode()).hexdigest())
            seen_restart_after = True
    for coll, mc in r.model.colls.items():
        if mc.props:
            colls_with_sets.add(coll)
    if len(colls_with_sets) < 2:
        return []
    return keys


def labels(program, stt, r):
    return [k for k in stt if k.startswith("props:") or k.startswith("ack:prop")]


CHECK = MachineCheck(ID, RULE, ("content", "props"), strategy, nontrivial, labels=labels, quick=20, thorough=300, assumptions=["after an acknowledged remove the property may read as 404, as empty, or (displayname) as the collection's base name", "values never contain CR, leading or trailing white space; ';' is not generated for the git-config back end"])
main = CHECK.main
replay = CHECK.replay
