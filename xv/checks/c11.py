"""C11 — calendar-query returns exactly the resources that match the filter."""
import collections
import datetime as dt
import hashlib
import itertools
import json
from zoneinfo import ZoneInfo

from hypothesis import strategies as st

from .. import dav, env, filterref, gen, icalref, runner
from ..machine import enc_body, body_of
from ..world import World

ID = "C11"
RULE = (
    "(a0) Case-folding sweep: every ASCII letter, both case directions, collations {default, i;ascii-casemap, i;octet}, negated and not, as SUMMARY text-match (936 queries, exhaustive). "
    "(a) Grid: for every value type (DATE, floating, UTC, TZID) x request time zone (UTC, Europe/Amsterdam, America/New_York, Pacific/Kiritimati) a collection holding one object per row of the RFC 4791 9.9 "
    "tables (VEVENT x5 rows, VTODO x8, VJOURNAL x3, VFREEBUSY x3, plus shifted copies); for each component type, calendar-query time-ranges whose start/end run over every instant of those objects "
    "(incl. DTSTART+DURATION, DTSTART+P1D, period bounds) -1s/exact/+1s and the open ends: every ordering of (start, end) relative to the component's instants. (b) Hypothesis-generated collections of 3-8 "
    "objects and filters from the 9.7 grammar (nested comp-filter, is-not-defined at component/property/parameter level, text-match with the three collations and negation, param-filter, prop-filter "
    "time-range strictly inside/outside, sibling filters). Oracle: xv/filterref.py (tables stored as data); the REPORT must answer exactly the accepted resources and calendar-data must equal GET. "
    "All grid points are non-trivial (counted distinct by (value type, tz, component, range)); a generated case is non-trivial when the expected result is neither empty nor everything."
)

TZS = ["UTC", "Europe/Amsterdam", "America/New_York", "Pacific/Kiritimati"]
VTYPES = ["date", "floating", "utc", "tzid"]


def dval(name, vt, day, hour, tz_obj):
    """Property line for a lattice point (day of January 2021, hour)."""
    if vt == "date":
        return f"{name};VALUE=DATE:202101{day:02d}"
    s = f"202101{day:02d}T{hour:02d}0000"
    if vt == "floating":
        return f"{name}:{s}"
    if vt == "utc":
        return f"{name}:{s}Z"
    return f"{name};TZID={tz_obj}:{s}"


def utcv(name, day, hour):
    return f"{name}:202101{day:02d}T{hour:02d}0000Z"


def grid_objects(vt, tzname):
    """[(shape id, body bytes)] — one object per table row (and shifted copies)."""
    tz_obj = "America/New_York" if tzname != "America/New_York" else "Europe/Amsterdam"
    A, B, C = (10, 10), (12, 10), (14, 10)
    dur_days = "P4D" if vt == "date" else "P4D"
    objs = []

    def add(shape, comp, lines):
        uid = f"{shape}-{vt}"
        body = "\r\n".join(["BEGIN:VCALENDAR", "VERSION:2.0", "PRODID:-//xv//grid//EN", f"BEGIN:{comp}", f"UID:{uid}", "DTSTAMP:20200101T000000Z"] + lines + [f"END:{comp}", "END:VCALENDAR", ""])
        objs.append((shape, body.encode()))

    d = lambda n, p: dval(n, vt, p[0], p[1], tz_obj)  # noqa: E731
    # VEVENT rows
    add("ev-dtend", "VEVENT", [d("DTSTART", A), d("DTEND", C)])
    add("ev-dtend-b", "VEVENT", [d("DTSTART", B), d("DTEND", C)])
    add("ev-dur", "VEVENT", [d("DTSTART", A), "DURATION:P4D"])
    add("ev-dur0", "VEVENT", [d("DTSTART", A), "DURATION:P0D"])
    add("ev-only", "VEVENT", [d("DTSTART", B)])
    # VTODO rows
    add("td-start-dur", "VTODO", [d("DTSTART", A), "DURATION:P4D"])
    add("td-start-due", "VTODO", [d("DTSTART", A), d("DUE", C)])
    add("td-start", "VTODO", [d("DTSTART", B)])
    add("td-due", "VTODO", [d("DUE", C)])
    add("td-comp-cre", "VTODO", [utcv("COMPLETED", 14, 10), utcv("CREATED", 10, 10)])
    add("td-cre-comp", "VTODO", [utcv("COMPLETED", 10, 10), utcv("CREATED", 14, 10)])
    add("td-comp", "VTODO", [utcv("COMPLETED", 12, 10)])
    add("td-cre", "VTODO", [utcv("CREATED", 12, 10)])
    add("td-none", "VTODO", ["SUMMARY:nothing"])
    # VJOURNAL rows
    add("jr-start", "VJOURNAL", [d("DTSTART", B)])
    add("jr-none", "VJOURNAL", ["SUMMARY:nothing"])
    # VFREEBUSY rows
    add("fb-both", "VFREEBUSY", [utcv("DTSTART", 10, 10), utcv("DTEND", 14, 10)])
    add("fb-periods", "VFREEBUSY", ["FREEBUSY:20210110T100000Z/20210111T100000Z,20210113T100000Z/PT2H"])
    add("fb-none", "VFREEBUSY", ["COMMENT:nothing"])
    return objs


def relevant_points(raw, comp_name, tz):
    """Instants of a component that the tables refer to."""
    cal = icalref.parse_one(raw, "VCALENDAR")
    pts = set()
    for c in cal.children:
        if c.name != comp_name:
            continue
        base = {}
        for n in ("DTSTART", "DTEND", "DUE", "COMPLETED", "CREATED"):
            p = c.first(n)
            if p:
                base[n] = filterref.instant(p, tz)
                pts.add(base[n])
        du = c.first("DURATION")
        if du and "DTSTART" in base:
            pts.add(base["DTSTART"] + filterref.parse_duration(du.value))
        if "DTSTART" in base:
            pts.add(base["DTSTART"] + dt.timedelta(days=1))
        for fb in c.get("FREEBUSY"):
            for per in fb.value.split(","):
                a, b = per.split("/")
                pa = filterref.parse_utc(a)
                pts.add(pa)
                pts.add(filterref.parse_utc(b) if b.endswith("Z") else pa + filterref.parse_duration(b))
    return pts


def ranges_for(points):
    cand = set()
    for p in points:
        u = p.astimezone(filterref.UTC)
        for delta in (-1, 0, 1):
            cand.add(u + dt.timedelta(seconds=delta))
    cand = sorted(cand)
    out = []
    for i, s in enumerate(cand):
        for e in cand[i + 1 :]:
            out.append((filterref.fmt_utc(s), filterref.fmt_utc(e)))
    for p in cand:
        out.append((filterref.fmt_utc(p), None))
        out.append((None, filterref.fmt_utc(p)))
    return out


def query(world, fe, coll, flt, tzname, data=True):
    body = dav.calquery_body(filterref.filter_xml(flt), data=data, timezone=filterref.timezone_text(tzname) if tzname else None)
    r = world.request(fe, "REPORT", coll + "/", [("Depth", "1"), dav.XML_CT], body)
    return r


def result_names(r):
    ms = dav.parse_ms(r)
    if ms is None:
        return None, None
    names = {}
    for resp in ms.responses:
        n = (dav.href_path(resp.href) or "").rsplit("/", 1)[-1]
        names[n] = resp.prop_text("{urn:ietf:params:xml:ns:caldav}calendar-data")
    return names, ms


def put_all(world, coll, objs):
    bodies = {}
    for shape, raw in objs:
        name = shape + ".ics"
        r = world.request("wsgi", "PUT", coll + "/" + dav.quote_name(name), [("Content-Type", "text/calendar")], raw)
        if not dav.acknowledged(r):
            raise RuntimeError(f"setup PUT {name} refused: {r.status} {r.exc or r.body[:200]!r}")
        bodies[name] = raw
    return bodies


def grid_shard(shard, combos, sample, seed):
    from .. import findings

    out = {"evaluations": 0, "nontrivial": set(), "violations": {}, "stats": collections.Counter(), "errors": [], "known": collections.Counter(), "samples": []}
    for idx, (vt, tzname) in enumerate(combos):
        if idx % runner.NSHARDS != shard:
            continue
        world = World(index_threshold=10**9)
        try:
            coll = "/user/calendars/grid"
            r = world.request("wsgi", "MKCALENDAR", coll)
            objs = grid_objects(vt, tzname)
            bodies = put_all(world, coll, objs)
            served = {}
            for name in bodies:
                g = world.request("wsgi", "GET", coll + "/" + dav.quote_name(name))
                served[name] = g.body
            tz = ZoneInfo(tzname)
            for comp in ("VEVENT", "VTODO", "VJOURNAL", "VFREEBUSY"):
                pts = set()
                for name, raw in bodies.items():
                    pts |= relevant_points(raw, comp, tz)
                rngs = ranges_for(pts)
                if sample is not None:
                    import random

                    rnd = random.Random(f"{seed}-{vt}-{tzname}-{comp}")  # sampling of an enumerated finite list
                    rngs = rnd.sample(rngs, min(len(rngs), sample))
                for k, (s, e) in enumerate(rngs):
                    flt = {"name": "VCALENDAR", "comps": [{"name": comp, "time_range": [s, e]}]}
                    fe = "aio" if k % 7 == 0 else "wsgi"
                    r = query(world, fe, coll, flt, tzname)
                    got, ms = result_names(r)
                    expected = {n for n, raw in bodies.items() if filterref.calendar_matches(flt, raw, tz)}
                    out["evaluations"] += len(bodies)
                    case = {"engine": "grid", "vt": vt, "tz": tzname, "comp": comp, "range": [s, e]}
                    out["nontrivial"].add(f"{vt}|{tzname}|{comp}|{s}|{e}")
                    if len(out["samples"]) < 1:
                        out["samples"].append(dict(case, expected=sorted(expected)))
                    if got is None:
                        sig = f"grid:report-failed:{comp}:{(r.exc or str(r.status))[:60]}"
                        out["violations"].setdefault(sig, (f"calendar-query {case} answered {r.status} {r.exc or r.body[:200]!r}", case))
                        continue
                    gotset = set(got)
                    if gotset != expected:
                        for n in sorted(gotset ^ expected):
                            shape = n[:-4]
                            kf = findings.c11_grid_known(shape, vt, s, e, n in gotset)
                            if kf:
                                out["known"][kf] += 1
                                continue
                            kind = "extra" if n in gotset else "missing"
                            sig = f"grid:{kind}:{shape}"
                            out["violations"].setdefault(sig, (f"calendar-query {case}: {n} is {kind} (expected {sorted(expected)}, got {sorted(gotset)}); object: {bodies[n].decode()!r}", dict(case, object=n)))
                    for n, data in got.items():
                        if n in served and data is not None and data.encode().replace(b"\r\n", b"\n") != served[n].replace(b"\r\n", b"\n"):
                            out["violations"].setdefault("grid:calendar-data-differs", (f"calendar-data of {n} differs from GET", case))
                    out["stats"][f"reports:{comp}"] += 1
        except Exception:
            import traceback

            out["errors"].append(traceback.format_exc())
        finally:
            world.close()
    out["stats"] = dict(out["stats"])
    return out


def casefold_sweep(shard):
    """Exhaustive: every ASCII letter, both case directions, three collations, on SUMMARY text-match."""
    import string

    out = {"evaluations": 0, "nontrivial": set(), "violations": {}, "stats": collections.Counter(), "errors": [], "known": collections.Counter(), "samples": []}
    if shard != 0:
        return out
    world = World(index_threshold=10**9)
    try:
        coll = "/user/calendars/fold"
        world.request("wsgi", "MKCALENDAR", coll)
        bodies = {}
        for ch in string.ascii_lowercase:
            for variant, text in (("lo", f"item {ch}{ch} end"), ("up", f"ITEM {ch.upper()}{ch.upper()} END")):
                name = f"{variant}-{ch}.ics"
                raw = ("BEGIN:VCALENDAR\r\nVERSION:2.0\r\nPRODID:-//xv//fold//EN\r\nBEGIN:VEVENT\r\nUID:fold-%s-%s\r\nDTSTART:20200101T000000Z\r\nSUMMARY:%s\r\nEND:VEVENT\r\nEND:VCALENDAR\r\n" % (variant, ch, text)).encode()
                r = world.request("wsgi", "PUT", coll + "/" + name, [("Content-Type", "text/calendar")], raw)
                if dav.acknowledged(r):
                    bodies[name] = raw
        tz = ZoneInfo("UTC")
        for ch in string.ascii_lowercase:
            for needle in (f"{ch}{ch}", f"{ch.upper()}{ch.upper()}", f"m {ch}{ch.upper()} e"):
                for co in (None, "i;ascii-casemap", "i;octet"):
                    for neg in (False, True):
                        flt = {"name": "VCALENDAR", "comps": [{"name": "VEVENT", "props": [{"name": "SUMMARY", "text_match": {"text": needle, "collation": co, "negate": neg}}]}]}
                        r = query(world, "wsgi", coll, flt, "UTC", data=False)
                        got, ms = result_names(r)
                        expected = {n for n, raw in bodies.items() if filterref.calendar_matches(flt, raw, tz)}
                        out["evaluations"] += 1
                        out["nontrivial"].add(f"fold|{needle}|{co}|{neg}")
                        if got is None or set(got) != expected:
                            out["violations"].setdefault(f"fold:{co}:{'neg' if neg else 'pos'}", (f"text-match {needle!r} collation {co} negate {neg}: got {sorted(got) if got is not None else r.status}, expected {sorted(expected)}", {"engine": "fold", "needle": needle, "collation": co, "negate": neg}))
    except Exception:
        import traceback

        out["errors"].append(traceback.format_exc())
    finally:
        world.close()
    out["stats"] = {"fold-queries": out["evaluations"]}
    return out


# ---------------------------------------------------------------------------
# (b) generated filters

TM_PROPS = ["SUMMARY", "DESCRIPTION", "LOCATION", "CATEGORIES", "ATTENDEE", "ORGANIZER", "UID", "STATUS", "CLASS", "X-FOO"]
PRESENCE_PROPS = TM_PROPS + ["DTSTART", "DTEND", "DUE", "DURATION", "RRULE", "SEQUENCE", "CREATED", "COMPLETED", "PERCENT-COMPLETE", "RECURRENCE-ID"]
PARAMS = ["CN", "ROLE", "PARTSTAT", "LANGUAGE", "TZID", "VALUE", "X-P"]
COLLATIONS = [None, None, "i;ascii-casemap", "i;octet", "i;unicode-casemap"]


def _values_of(objs, pname):
    vals = []
    for o in objs:
        try:
            cal = icalref.parse_one(o, "VCALENDAR")
        except icalref.ParseError:
            continue
        for c in cal.walk():
            for p in c.get(pname):
                vals.append(filterref.prop_text(p))
    return vals


@st.composite
def focused_time_filter(draw, objs):
    """A time-range whose ends sit on (or one second next to) the instants of a component that exists in the
    collection: start, end, start+duration, due, completed, created."""
    cands = []
    for o in objs:
        for comp in ("VEVENT", "VTODO", "VJOURNAL", "VFREEBUSY"):
            try:
                pts = relevant_points(o, comp, filterref.UTC)
            except Exception:
                continue
            if pts:
                cands.append((comp, sorted(pts)))
                if b"DURATION" in o:
                    cands += [(comp, sorted(pts))] * 3  # spans given by a duration are the less common spelling
    if not cands:
        return None
    comp, pts = draw(st.sampled_from(cands))
    rs = ranges_for(pts)
    if draw(st.booleans()):
        # a range that starts after the component's first instant (only its tail can overlap)
        first = filterref.fmt_utc(pts[0].astimezone(filterref.UTC))
        later = [r for r in rs if r[0] is not None and r[0] > first]
        rs = later or rs
    s, e = draw(st.sampled_from(rs))
    return {"name": "VCALENDAR", "comps": [{"name": comp, "time_range": [s, e]}]}


@st.composite
def focused_presence_filter(draw, objs):
    """'has this property' / 'has not' for a property that some stored component really has - preferably one whose
    value is empty or zero (SEQUENCE:0, DESCRIPTION:), which is present all the same."""
    found = []
    for o in objs:
        try:
            cal = icalref.parse_one(o, "VCALENDAR")
        except icalref.ParseError:
            continue
        for c in cal.children:
            for p in c.props:
                if p.name in ("BEGIN", "END"):
                    continue
                found.append((c.name, p.name, p.value))
    if not found:
        return None
    falsy = [f for f in found if f[2] in ("", "0")]
    comp, pn, _ = draw(st.sampled_from(falsy if falsy and draw(st.integers(0, 2)) else found))
    pf = {"name": pn}
    if draw(st.booleans()):
        pf["is_not_defined"] = True
    return {"name": "VCALENDAR", "comps": [{"name": comp, "props": [pf]}]}


@st.composite
def focused_text_filter(draw, objs):
    """The plain 'search by text' query of a client: one comp-filter, one prop-filter, one text-match whose
    needle comes from a value that exists in the collection (preferably one with escaped characters)."""
    found = []
    for o in objs:
        try:
            cal = icalref.parse_one(o, "VCALENDAR")
        except icalref.ParseError:
            continue
        for c in cal.children:
            for pn in ("SUMMARY", "DESCRIPTION", "LOCATION"):
                for p in c.get(pn):
                    v = filterref.prop_text(p)
                    if v and "\n" not in v:
                        found.append((c.name, pn, v))
    if not found:
        return None
    special = [f for f in found if any(ch in f[2] for ch in "\\,;")]
    comp, pn, v = draw(st.sampled_from(special if special and draw(st.integers(0, 3)) else found))
    tm = draw(text_match([v], modes=["around-special", "around-special", "substring", "equal"]))
    return {"name": "VCALENDAR", "comps": [{"name": comp, "props": [{"name": pn, "text_match": tm}]}]}


@st.composite
def text_match(draw, candidates, modes=None):
    cands = [c for c in candidates if c]
    mode = draw(st.sampled_from(modes or ["equal", "substring", "substring", "case", "absent", "around-special", "around-special"]))
    special = [c for c in cands if any(ch in c for ch in "\\,;") and "\n" not in c]
    if not cands or mode == "absent" or (mode == "around-special" and not special):
        text = draw(st.sampled_from(["zzz-nowhere", "qq", "Meeting"]))
    else:
        v = draw(st.sampled_from(special if mode == "around-special" else cands))
        if mode == "around-special":
            # a needle that spans a character which is escaped in the file (backslash, comma, semicolon)
            ks = [k for k, ch in enumerate(v) if ch in "\\,;"]
            k = ks[draw(st.integers(0, len(ks) - 1))]
            text = v[max(0, k - draw(st.integers(0, 2))) : k + 1 + draw(st.integers(0, 3))]
        elif mode == "equal":
            text = v
        elif mode == "case":
            text = v.swapcase()
        else:
            i = draw(st.integers(0, max(0, len(v) - 1)))
            j = draw(st.integers(i + 1, len(v)))
            text = v[i:j]
    if not text.strip() or "\n" in text:
        text = "x"
    return {"text": text, "collation": draw(st.sampled_from(COLLATIONS)), "negate": draw(st.integers(0, 3)) == 0}


@st.composite
def prop_filter(draw, objs, comp_name):
    kind = draw(st.sampled_from(["present", "absent", "text", "text", "text", "param", "param-tm", "time"]))
    if kind == "present":
        return {"name": draw(st.sampled_from(PRESENCE_PROPS))}
    if kind == "absent":
        return {"name": draw(st.sampled_from(PRESENCE_PROPS)), "is_not_defined": True}
    if kind == "text":
        present = [n for n in TM_PROPS if _values_of(objs, n)]
        name = draw(st.sampled_from(present)) if present and draw(st.integers(0, 3)) else draw(st.sampled_from(TM_PROPS))
        return {"name": name, "text_match": draw(text_match(_values_of(objs, name)))}
    if kind == "param":
        name = draw(st.sampled_from(["ATTENDEE", "ORGANIZER", "SUMMARY", "DTSTART", "X-FOO"]))
        return {"name": name, "params": [{"name": draw(st.sampled_from(PARAMS)), "is_not_defined": draw(st.booleans())}]}
    if kind == "param-tm":
        name = draw(st.sampled_from(["ATTENDEE", "ATTENDEE", "ORGANIZER", "SUMMARY"]))
        par = draw(st.sampled_from(["CN", "ROLE", "PARTSTAT", "LANGUAGE"]))
        vals = {"CN": ["John Doe", "Doe, Jane", "x", "Zoë", "Doe"], "ROLE": ["CHAIR", "REQ-PARTICIPANT", "PARTICIPANT"], "PARTSTAT": ["ACCEPTED", "DECLINED", "accepted"], "LANGUAGE": ["en", "nl", "en-GB"]}[par]
        return {"name": name, "params": [{"name": par, "text_match": draw(text_match(vals))}]}
    # prop-filter time-range strictly inside / outside (the boundary is left open by the RFC)
    name = draw(st.sampled_from(["DTSTART", "DUE", "CREATED", "COMPLETED"]))
    y = draw(st.integers(2018, 2023))
    s = f"{y}0101T000000Z"
    e = f"{y + draw(st.integers(1, 3))}0101T000000Z"
    return {"name": name, "time_range": [s, e]}


@st.composite
def comp_filter(draw, objs):
    comp = draw(st.sampled_from(["VEVENT", "VEVENT", "VTODO", "VTODO", "VJOURNAL", "VFREEBUSY", "VTIMEZONE"]))
    cf = {"name": comp}
    mode = draw(st.sampled_from(["plain", "undef", "props", "props", "props", "time", "nested", "nested-undef"]))
    if mode == "undef":
        cf["is_not_defined"] = True
        return cf
    if mode in ("props", "nested", "nested-undef", "time"):
        cf["props"] = [draw(prop_filter(objs, comp)) for _ in range(draw(st.integers(0 if mode != "props" else 1, 2)))]
    if mode == "time" and comp != "VTIMEZONE":
        y = draw(st.integers(2018, 2022))
        m = draw(st.integers(1, 12))
        s = f"{y}{m:02d}01T000000Z"
        e = f"{y + draw(st.integers(0, 2))}{12 if m == 12 else m + 1:02d}02T000000Z"  # always later than s
        cf["time_range"] = draw(st.sampled_from([[s, e], [s, None], [None, e]]))
    if mode in ("nested", "nested-undef") and comp in ("VEVENT", "VTODO", "VTIMEZONE"):
        sub = {"name": "VALARM" if comp != "VTIMEZONE" else draw(st.sampled_from(["STANDARD", "DAYLIGHT"]))}
        if mode == "nested-undef":
            sub["is_not_defined"] = True
        elif draw(st.booleans()):
            sub["props"] = [{"name": draw(st.sampled_from(["ACTION", "DESCRIPTION", "TRIGGER", "TZNAME"]))}]
        cf["comps"] = [sub]
    return cf


@st.composite
def gen_case(draw):
    n = draw(st.integers(3, 8))
    objs = []
    for i in range(n):
        o = draw(gen.calendar_object(uid=f"g{i}", style={"eol": "\r\n", "fold": 0, "case": "upper", "shuffle": 0, "final_eol": True}))
        objs.append(o["raw"])
    top = {"name": "VCALENDAR"}
    k = draw(st.sampled_from([1, 1, 1, 2]))
    top["comps"] = [draw(comp_filter(objs)) for _ in range(k)]
    if draw(st.integers(0, 5)) == 0:
        top["props"] = [draw(st.sampled_from([{"name": "VERSION"}, {"name": "CALSCALE"}, {"name": "CALSCALE", "is_not_defined": True}, {"name": "PRODID", "text_match": {"text": "xv", "collation": None, "negate": False}}]))]
    if draw(st.integers(0, 4)) == 0:
        ff = draw(focused_text_filter(objs))  # the plain search-by-text query, needle around an escaped character
        if ff is not None:
            top = ff
    elif draw(st.integers(0, 5)) == 0:
        ff = draw(focused_presence_filter(objs))
        if ff is not None:
            top = ff
    elif draw(st.integers(0, 4)) == 0:
        ff = draw(focused_time_filter(objs))  # a range that begins or ends at an instant of an existing component
        if ff is not None:
            top = ff
    warm = {"name": "VCALENDAR", "comps": [draw(comp_filter(objs))]}
    late = draw(st.sampled_from([0, 1, 1, 2]))
    return {"objects": [enc_body(o) for o in objs], "filter": top, "warm": warm, "late": late, "tz": draw(st.sampled_from(TZS)), "fe": draw(st.sampled_from(["wsgi", "aio"]))}


def uses_time_range(cf):
    if cf.get("time_range"):
        return True
    return any(uses_time_range(s) for s in cf.get("comps", []))


def run_gen_case(case):
    from .. import findings

    objs = [body_of({"body": b}) for b in case["objects"]]
    flt = case["filter"]
    tz = ZoneInfo(case["tz"])
    world = World(index_threshold=None)  # the default configuration: the query index is built after 5 repetitions
    out = {"ok": True, "violation": None, "labels": [], "known": {}, "stats": {}}
    try:
        coll = "/user/calendars/q"
        world.request("wsgi", "MKCALENDAR", coll)
        bodies = {}
        late = min(int(case.get("late") or 0), len(objs) - 1)
        late_objs = {}
        for i, raw in enumerate(objs):
            name = f"o{i}.ics"
            if i >= len(objs) - late:
                late_objs[name] = raw  # stored only after the index has been built (see below)
                continue
            r = world.request("wsgi", "PUT", coll + "/" + name, [("Content-Type", "text/calendar")], raw)
            if dav.acknowledged(r):
                bodies[name] = raw
        expected = set()
        unasserted = set()
        skipped = set()

        def classify(n, raw):
            # recurrence expansion is outside the check: objects with RRULE are not asserted for time-range filters
            cal = icalref.parse_one(raw, "VCALENDAR")
            if uses_time_range(flt) and any(filterref.has_rrule(c) or c.get("RECURRENCE-ID") for c in cal.children):
                skipped.add(n)
                return
            try:
                v = filterref.calendar_matches(flt, raw, tz)
            except (NotImplementedError, ValueError, KeyError):
                skipped.add(n)
                return
            if v is None:
                unasserted.add(n)
            elif v:
                expected.add(n)

        for n, raw in bodies.items():
            classify(n, raw)
        r = query(world, case["fe"], coll, flt, case["tz"])
        got, ms = result_names(r)
        if got is None:
            kf = findings.c11_gen_known_failure(flt, r)
            if kf:
                out["known"][kf] = 1
            else:
                out["ok"] = False
                out["violation"] = {"oracle": "calquery", "sig": f"report-failed:{(r.exc or str(r.status)).split('@')[-1].strip()[:50]}", "detail": f"calendar-query {json.dumps(flt)} answered {r.status} {r.exc or r.body[:300]!r}"}
            return out
        gotset = set(got)
        # another query repeated past the indexing threshold first (the index then exists with other keys) ...
        if case.get("warm"):
            for rep in range(7):
                query(world, "wsgi", coll, case["warm"], case["tz"], data=False)
        # ... and the same request repeated past the threshold must keep giving the same answer
        for rep in range(7):
            r2 = query(world, case["fe"], coll, flt, case["tz"], data=False)
            got2, _ = result_names(r2)
            res2 = ("ok", tuple(sorted(got2))) if got2 is not None else ("error", (r2.exc or str(r2.status))[:60])
            if res2 != ("ok", tuple(sorted(gotset))):
                kf = findings.c10_known(flt, [res2, ("ok", tuple(sorted(gotset)))], ["repeated", "first"], 1, bodies)
                if kf:
                    out["known"][kf] = out["known"].get(kf, 0) + 1
                    break
                out["ok"] = False
                out["violation"] = {"oracle": "calquery", "sig": f"answer-changes-with-repetition:{filter_shape(flt)}", "detail": f"calendar-query {json.dumps(flt)} (tz {case['tz']}): first answer {sorted(gotset)}, repetition {rep + 2} answers {res2}"}
                return out
        # objects stored after both filters became indexed; the other filter looks at them first
        if late_objs:
            for n, raw in late_objs.items():
                r = world.request("wsgi", "PUT", coll + "/" + n, [("Content-Type", "text/calendar")], raw)
                if dav.acknowledged(r):
                    bodies[n] = raw
                    classify(n, raw)
            if case.get("warm"):
                query(world, "wsgi", coll, case["warm"], case["tz"], data=False)
            r = query(world, case["fe"], coll, flt, case["tz"])
            got, ms = result_names(r)
            if got is None:
                kf = findings.c11_gen_known_failure(flt, r)
                if kf:
                    out["known"][kf] = 1
                else:
                    out["ok"] = False
                    out["violation"] = {"oracle": "calquery", "sig": f"report-failed-after-late-put:{(r.exc or str(r.status)).split('@')[-1].strip()[:50]}", "detail": f"calendar-query {json.dumps(flt)} after {sorted(late_objs)} were stored behind a warm index answered {r.status} {r.exc or r.body[:300]!r}"}
                return out
            gotset = set(got)
        asserted = set(bodies) - unasserted - skipped
        diff = (gotset ^ expected) & asserted
        for n in sorted(diff):
            kf = findings.c11_gen_known(flt, bodies[n], n in gotset, tz)
            if not kf and late_objs:  # this answer came through the index: K5 applies as in C10
                kf = findings.c10_known(flt, [("ok", (n,) if n in gotset else ()), ("ok", () if n in gotset else (n,))], ["indexed", "reference"], 1, bodies)
            if kf:
                out["known"][kf] = out["known"].get(kf, 0) + 1
                continue
            kind = "extra" if n in gotset else "missing"
            out["ok"] = False
            out["violation"] = {"oracle": "calquery", "sig": f"{kind}:{filter_shape(flt)}", "detail": f"calendar-query {json.dumps(flt)} (tz {case['tz']}): {n} is {kind}; expected {sorted(expected)} got {sorted(gotset)}; object {bodies[n].decode()!r}"}
            break
        if out["ok"]:
            for n, data in got.items():
                if data is None:
                    continue
                g = world.request("wsgi", "GET", coll + "/" + n)
                if data.encode().replace(b"\r\n", b"\n") != g.body.replace(b"\r\n", b"\n"):
                    out["ok"] = False
                    out["violation"] = {"oracle": "calquery", "sig": "calendar-data-differs", "detail": f"calendar-data of {n} differs from GET"}
        out["nontrivial"] = bool(expected) and len(expected) < len(asserted)
        out["labels"] = ["shape:" + filter_shape(flt)] + ([f"late-put:{len(late_objs)}"] if late_objs else []) + (["unasserted"] if unasserted else []) + (["skipped-recurring"] if skipped else [])
        return out
    finally:
        world.close()


def filter_shape(flt):
    parts = []

    def walk(cf, depth):
        if cf.get("is_not_defined"):
            parts.append(f"c{depth}-undef")
        if cf.get("time_range"):
            parts.append(f"c{depth}-time")
        for pf in cf.get("props", []):
            if pf.get("is_not_defined"):
                parts.append("p-undef")
            elif pf.get("text_match"):
                parts.append("p-text" + ("-neg" if pf["text_match"].get("negate") else ""))
            elif pf.get("time_range"):
                parts.append("p-time")
            elif pf.get("params"):
                parts.append("p-param" + ("-undef" if pf["params"][0].get("is_not_defined") else ("-text" if pf["params"][0].get("text_match") else "")))
            else:
                parts.append("p-present")
        for s in cf.get("comps", []):
            walk(s, depth + 1)

    walk(flt, 0)
    return "+".join(sorted(set(parts))) or "plain"


def gen_run_one(case):
    r = run_gen_case(case)
    r["key"] = hashlib.sha1(json.dumps(case, sort_keys=True).encode()).hexdigest()
    r["size"] = len(case["objects"])
    r["sample"] = case
    r.setdefault("nontrivial", False)
    return r


def gen_strategy():
    return gen_case()


def main(tier, seed):
    res = runner.CheckResult(ID, tier, seed)
    res.rule = RULE
    combos = list(itertools.product(VTYPES, TZS))
    sample = 12 if tier == "quick" else None
    shards = runner.run_shards(grid_shard, combos=combos, sample=sample, seed=seed)
    shards += [casefold_sweep(0)]
    gstats = collections.Counter()
    for sr in shards:
        if "error" in sr:
            res.errors.append(sr["error"])
            continue
        res.evaluations += sr["evaluations"]
        res.nontrivial |= sr["nontrivial"]
        res.errors.extend(sr["errors"])
        res.known.update(sr["known"])
        gstats.update(sr["stats"])
        res.samples.extend(sr["samples"][:1])
        for sig, (detail, case) in sr["violations"].items():
            res.add_violation(sig, detail, case)
    res.samples = res.samples[:2]
    res.extra["grid"] = {"combinations": len(combos), "reports": dict(gstats), "exhaustive": sample is None, "object_range_pairs": res.evaluations}
    res.exhaustive = False
    # generated
    shards = runner.run_shards(runner.machine_shard, seed=seed, examples=60 if tier == "quick" else 600, strategy_factory=gen_strategy, run_one=gen_run_one)
    sub = runner.CheckResult(ID, tier, seed)
    viols = runner.merge_machine(sub, shards)
    res.evaluations += sub.evaluations
    res.nontrivial |= sub.nontrivial
    res.errors.extend(sub.errors)
    res.known.update(sub.known)
    res.samples.extend(sub.samples[:2])
    res.extra["generated"] = {"cases": sub.evaluations, "nontrivial": len(sub.nontrivial), "labels": sub.extra.get("labels", {})}
    for sig, v in viols.items():
        res.add_violation("gen:" + sig, v["violation"]["detail"], {"engine": "gen", "case": v["case"]})
    res.assumptions = [
        "the RFC 4791 9.9 tables are reproduced in xv/filterref.py as data (trusted input)",
        "recurrence expansion is outside the check: objects with RRULE/RDATE/RECURRENCE-ID are not asserted under time-range filters",
        "grid queries run with the index disabled (index_threshold=10^9); generated cases run with the default threshold and are repeated 8 times (the answer must not change; C10 explores the index path in depth)",
        "i;unicode-casemap verdicts that depend on the case of non-ASCII letters are not asserted",
        "lattice instants avoid DST transitions",
    ]
    return res


def replay(obj):
    if obj.get("engine") == "gen":
        r = run_gen_case(obj["case"])
        return r["ok"], (r["violation"] or {}).get("detail")
    if obj.get("engine") == "grid":
        out = grid_shard(0, [(obj["vt"], obj["tz"])], None, 0)
        bad = [v for s, v in out["violations"].items()]
        return (not bad), (bad[0][0] if bad else None)
    return True, None
