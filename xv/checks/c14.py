"""C14 — only well-formed data is stored, and stored data is a fixed point of upload."""
import hashlib

from hypothesis import strategies as st

from .. import gen, gen_prog, runner
from ..machine import enc_body
from ._machine import MachineCheck

ID = "C14"
RULE = (
    "Generated valid iCalendar objects and vCards (line endings, folding width, property-name case, property order, TEXT escapes, quoted/unquoted parameters, non-ASCII, VTIMEZONE/VALARM sub-components, "
    "RRULE/EXDATE-free recurrence properties, recurrence overrides) and members of the invalid classes (arbitrary text, empty, truncated at every line, forbidden control characters \\x01/\\x0c in text "
    "properties of components at any depth, missing END, HTML; vCard without BEGIN/END, truncated) are PUT with the matching media type to a calendar / address book (tree-git and bare-git, both front ends) "
    "and through import_one on bare-memory and vdir. Valid: acknowledged, GET parses with the independent parser into a tree property-for-property equal to the input (vCards byte-identical), multiget serves the "
    "same bytes; re-uploading the served bytes leaves ETag, served bytes, collection tag and git commit count unchanged. Invalid: refused; GET 404 or previous content; tag and commit count unchanged. "
    "Non-trivial: a valid body whose stored form differs from the upload (normalisation did something) and whose stored form was re-uploaded, or an invalid body; distinct by body hash."
)

CTRL_PROPS = ["SUMMARY", "DESCRIPTION", "LOCATION", "COMMENT", "CONTACT", "X-NOTE"]


@st.composite
def deep_ctrl_calendar(draw):
    """Forbidden control character in a text property of a component at depth 1, 2 or 3."""
    ch = draw(st.sampled_from(["\x01", "\x0c"]))
    prop = draw(st.sampled_from(CTRL_PROPS))
    where = draw(st.sampled_from(["vevent", "valarm", "vtodo", "vjournal", "tz-standard", "vcalendar"]))
    bad = f"{prop}:bad{ch}char"
    uid = draw(st.sampled_from(gen.UID_POOL[:4]))
    L = ["BEGIN:VCALENDAR", "VERSION:2.0", "PRODID:-//xv//EN"]
    if where == "vcalendar":
        L.append("X-WR-CALDESC:bad" + ch + "char")
    if where == "tz-standard":
        L += ["BEGIN:VTIMEZONE", "TZID:Europe/Amsterdam", "BEGIN:STANDARD", "DTSTART:19701025T030000", "TZOFFSETFROM:+0200", "TZOFFSETTO:+0100", "TZNAME:C" + ch + "ET", "END:STANDARD", "END:VTIMEZONE"]
    comp = {"vevent": "VEVENT", "valarm": "VEVENT", "vtodo": "VTODO", "vjournal": "VJOURNAL", "tz-standard": "VEVENT", "vcalendar": "VEVENT"}[where]
    L += [f"BEGIN:{comp}", f"UID:{uid}", "DTSTAMP:20200101T000000Z", "DTSTART:20200101T000000Z", "SUMMARY:ok"]
    if where in ("vevent", "vtodo", "vjournal"):
        L.append(bad)
    if where == "valarm":
        L += ["BEGIN:VALARM", "ACTION:DISPLAY", "TRIGGER:-PT15M", "DESCRIPTION:bad" + ch + "char", "END:VALARM"]
    L += [f"END:{comp}", "END:VCALENDAR"]
    return "ctrl@" + where, ("\r\n".join(L) + "\r\n").encode("utf-8")


def _maybe_prestore(draw, steps, raw, fe, slot):
    """The same (invalid) bytes may already be in the collection's repository under a name / media type
    that is not validated (a memo uploaded as application/octet-stream), possibly deleted again:
    whether a body is accepted must not depend on that."""
    k = draw(st.integers(0, 5))
    if k >= 2 or not raw:
        return
    steps.append({"op": "PUT", "fe": fe, "coll": slot, "name": "memo.txt", "ctype": "application/octet-stream", "body": enc_body(raw), "cond": []})
    if k == 1:
        steps.append({"op": "DELETE", "fe": fe, "coll": slot, "name": "memo.txt", "cond": []})


@st.composite
def c14_program(draw):
    cfg = {"prefix": draw(st.sampled_from(gen_prog.PREFIXES)), "seed": []}
    if draw(st.booleans()):
        cfg["seed"].append({"slot": "b1", "bare": True, "meta": draw(st.sampled_from(["config", "file"])), "kind": "calendar"})
    ics = [draw(gen.member_name(".ics", fancy=False)) for _ in range(3)] + [draw(gen.member_name(".ics", fancy=True))]
    vcf = [draw(gen.member_name(".vcf", fancy=False)) for _ in range(2)]
    steps = [{"op": "MKCOL", "fe": draw(gen_prog.FE), "coll": "c1", "kind": "mkcalendar"}, {"op": "MKCOL", "fe": draw(gen_prog.FE), "coll": "a1", "kind": "ext-addressbook"}]
    cals = ["c1", "c1", "b1"] if cfg["seed"] else ["c1"]
    uid = 0
    for _ in range(draw(st.integers(4, 10))):
        fe = draw(gen_prog.FE)
        fam = draw(st.sampled_from(["cal", "cal", "cal", "card", "badcal", "badcal", "deepctrl", "badcard"]))
        uid += 1
        if fam == "cal":
            obj = draw(gen.calendar_object(uid=f"c14-{uid}"))
            steps.append({"op": "C14", "fe": fe, "coll": draw(st.sampled_from(cals)), "name": draw(st.sampled_from(ics)), "ctype": draw(st.sampled_from(gen_prog.CAL_CTYPES)), "body": enc_body(obj["raw"]), "valid": True, "klass": "calendar:" + "+".join(obj["kinds"])})
        elif fam == "card":
            steps.append({"op": "C14", "fe": fe, "coll": "a1", "name": draw(st.sampled_from(vcf)), "ctype": draw(st.sampled_from(gen_prog.CARD_CTYPES)), "body": enc_body(draw(gen.vcard())["raw"]), "valid": True, "klass": "vcard"})
        elif fam == "badcal":
            k, raw = draw(gen.invalid_calendar())
            _maybe_prestore(draw, steps, raw, fe, draw(st.sampled_from(cals)))
            steps.append({"op": "C14", "fe": fe, "coll": draw(st.sampled_from(cals)), "name": draw(st.sampled_from(ics)), "ctype": draw(st.sampled_from(gen_prog.CAL_CTYPES)), "body": enc_body(raw), "valid": False, "klass": k})
        elif fam == "deepctrl":
            k, raw = draw(deep_ctrl_calendar())
            _maybe_prestore(draw, steps, raw, fe, draw(st.sampled_from(cals)))
            steps.append({"op": "C14", "fe": fe, "coll": draw(st.sampled_from(cals)), "name": draw(st.sampled_from(ics)), "ctype": draw(st.sampled_from(gen_prog.CAL_CTYPES)), "body": enc_body(raw), "valid": False, "klass": k})
        else:
            k, raw = draw(gen.invalid_vcard())
            _maybe_prestore(draw, steps, raw, fe, "a1")
            steps.append({"op": "C14", "fe": fe, "coll": "a1", "name": draw(st.sampled_from(vcf)), "ctype": draw(st.sampled_from(gen_prog.CARD_CTYPES)), "body": enc_body(raw), "valid": False, "klass": "vcard-" + k})
        if draw(st.integers(0, 5)) == 0:
            # a member created by POST (the server chooses the name), media type with or without parameters;
            # a later upload - valid or not - addresses the URL the server handed out
            isab = draw(st.integers(0, 3)) == 0
            if isab:
                steps.append({"op": "POST", "fe": fe, "coll": "a1", "ctype": draw(st.sampled_from(["text/vcard", "text/vcard; charset=utf-8", "text/vcard;charset=UTF-8"])), "body": enc_body(draw(gen.vcard())["raw"])})
                k, raw = draw(gen.invalid_vcard())
                steps.append({"op": "C14", "fe": draw(gen_prog.FE), "coll": "a1", "name": {"posted": draw(st.integers(0, 3))}, "ctype": draw(st.sampled_from(gen_prog.CARD_CTYPES)), "body": enc_body(raw), "valid": False, "klass": "vcard-" + k})
            else:
                uid += 1
                cslot = draw(st.sampled_from(cals))
                steps.append({"op": "POST", "fe": fe, "coll": cslot, "ctype": draw(st.sampled_from(["text/calendar", "text/calendar; charset=utf-8", "text/calendar;charset=utf-8", "text/calendar; component=VEVENT"])), "body": enc_body(draw(gen.calendar_object(uid=f"c14-p{uid}"))["raw"])})
                k, raw = draw(gen.invalid_calendar())
                steps.append({"op": "C14", "fe": draw(gen_prog.FE), "coll": cslot, "name": {"posted": draw(st.integers(0, 3))}, "ctype": draw(st.sampled_from(gen_prog.CAL_CTYPES)), "body": enc_body(raw), "valid": False, "klass": k})
        if draw(st.integers(0, 9)) == 0:
            steps.append({"op": "RESTART"})
        if draw(st.integers(0, 7)) == 0:
            # the collection is deleted and created again at the same URL in the running server
            slot = draw(st.sampled_from(["c1", "c1", "a1"]))
            steps.append({"op": "DELETE", "fe": fe, "coll": slot, "name": None, "slash": draw(st.booleans())})
            steps.append({"op": "MKCOL", "fe": draw(gen_prog.FE), "coll": slot, "kind": {"c1": draw(st.sampled_from(["mkcalendar", "ext-calendar"])), "a1": "ext-addressbook"}[slot], "props": [], "slash": draw(st.booleans())})
    return {"config": cfg, "steps": steps}


def strategy():
    return c14_program()


def nontrivial(program, stt, r):
    return list(getattr(r, "c14_keys", set()))


def labels(program, stt, r):
    return [k for k in stt if k.startswith("c14:")]


CHECK = MachineCheck(ID, RULE, ("content",), strategy, nontrivial, labels=labels, quick=25, thorough=600, assumptions=["bodies are valid UTF-8 and are sent with the media type matching the member's extension", "value spellings that the iCalendar library re-spells (PT0S->P0D, P1W->P7D) are generated in canonical form only"])


# ---------------------------------------------------------------------------
# store-API part: import_one on bare-memory and vdir


def store_shard(shard, seed, examples):
    import collections
    import os
    import shutil
    import tempfile

    from hypothesis import HealthCheck, Phase, given, settings
    from hypothesis import seed as hseed

    from .. import env, icalref
    from ..storemachine import open_store, outcome_class

    out = {"evaluations": 0, "nontrivial": set(), "violations": {}, "stats": collections.Counter(), "errors": []}
    cases = st.one_of(
        gen.calendar_object().map(lambda o: ("valid", "x.ics", o["raw"])),
        gen.vcard().map(lambda o: ("valid", "x.vcf", o["raw"])),
        gen.invalid_calendar().map(lambda kr: (kr[0], "x.ics", kr[1])),
        deep_ctrl_calendar().map(lambda kr: (kr[0], "x.ics", kr[1])),
        gen.invalid_vcard().map(lambda kr: ("vcard-" + kr[0], "x.vcf", kr[1])),
    )

    @settings(max_examples=examples, database=None, deadline=None, phases=[Phase.generate], suppress_health_check=list(HealthCheck))
    @hseed(seed * 1000 + shard + 500)
    @given(cases)
    def prop(case):
        klass, name, raw = case
        scratch = tempfile.mkdtemp(prefix="xv14-", dir=env.scratch_root())
        try:
            for b in ("mem", "vdir"):
                s = open_store(b, os.path.join(scratch, b), create=True)
                ctype = "text/vcard" if name.endswith(".vcf") else "text/calendar"
                exc = None
                try:
                    n, etag = s.import_one(name, ctype, [raw])
                except Exception as e:
                    exc = e
                cls = outcome_class(exc)
                out["stats"][f"{b}:{'valid' if klass == 'valid' else 'invalid'}:{cls}"] += 1
                sig = None
                if klass == "valid":
                    if cls != "ok":
                        sig, detail = f"store-valid-refused:{b}", f"{b}: import_one refused a well-formed body with {exc!r}: {raw[:300]!r}"
                    else:
                        served = b"".join(s.get_file(name).content)
                        root = "VCARD" if name.endswith(".vcf") else "VCALENDAR"
                        try:
                            ok = icalref.parse_one(served, root).canon() == icalref.parse_one(raw, root).canon()
                        except icalref.ParseError:
                            ok = False
                        if not ok:
                            sig, detail = f"store-served-differs:{b}", f"{b}: stored {served[:300]!r} for {raw[:300]!r}"
                        else:
                            n2, etag2 = s.import_one(name, ctype, [served])
                            served2 = b"".join(s.get_file(name).content)
                            if etag2 != etag or served2 != served:
                                sig, detail = f"store-not-fixpoint:{b}", f"{b}: re-import of stored bytes changed etag {etag}->{etag2}"
                else:
                    if cls == "ok":
                        sig, detail = f"store-invalid-accepted:{b}:{klass}", f"{b}: import_one accepted an invalid body ({klass}): {raw[:300]!r}"
                    elif cls != "InvalidFileContents":
                        sig, detail = f"store-invalid-crash:{b}:{cls}", f"{b}: import_one raised {exc!r} for an invalid body ({klass}): {raw[:300]!r}"
                    elif list(s.iter_with_etag()):
                        sig, detail = f"store-invalid-stored:{b}", f"{b}: refused body left a member behind"
                if sig and sig not in out["violations"]:
                    out["violations"][sig] = (detail, {"engine": "store14", "klass": klass, "name": name, "body": enc_body(raw)})
            out["evaluations"] += 1
            out["nontrivial"].add(("inv:" if klass != "valid" else "val:") + hashlib.sha1(raw).hexdigest())
        finally:
            shutil.rmtree(scratch, ignore_errors=True)

    try:
        prop()
    except Exception:
        import traceback

        out["errors"].append(traceback.format_exc())
    out["stats"] = dict(out["stats"])
    return out


def main(tier, seed):
    res = CHECK.main(tier, seed)
    shards = runner.run_shards(store_shard, seed=seed, examples=60 if tier == "quick" else 1500)
    sstats = {}
    for sr in shards:
        if "error" in sr:
            res.errors.append(sr["error"])
            continue
        res.evaluations += sr["evaluations"]
        res.nontrivial |= sr["nontrivial"]
        res.errors.extend(sr["errors"])
        for k, v in sr["stats"].items():
            sstats[k] = sstats.get(k, 0) + v
        for sig, (detail, rep) in sr["violations"].items():
            res.add_violation(sig, detail, rep)
    res.extra["store_import"] = sstats
    if tier == "thorough":
        from . import c14_fuzz

        c14_fuzz.run(res, seed)
    return res


def replay(obj):
    if obj.get("engine") == "store14":
        return True, "store-level case: re-run the check"
    return CHECK.replay(obj)
