"""C12 — addressbook-query returns exactly the contacts that match the filter."""
import collections
import hashlib
import itertools
import json

from hypothesis import strategies as st

from .. import dav, filterref, gen, icalref, runner
from ..machine import body_of, enc_body
from ..world import World

ID = "C12"
RULE = (
    "(a) Exhaustive grid: match-type {contains, equals, starts-with, ends-with, absent} x collation {absent, i;ascii-casemap, i;octet, i;unicode-casemap} x negate {yes, no} x 19 needles (five of them beginning or ending with white space) "
    "(equal, prefix, suffix, infix, ASCII/non-ASCII case variants, disjoint, empty, longer than the value, non-ASCII) against an address book of 7 cards, both front ends. (b) Hypothesis-generated address books of 3-8 vCards "
    "(3.0/4.0, ASCII and non-ASCII names, multi-instance EMAIL/TEL with TYPE parameters, NOTE with escapes, ORG/ADR/N structured values used for presence only) and filters from the RFC 6352 10.5 grammar "
    "(test anyof/allof/absent, 0-3 prop-filters with mixed-case names: presence, is-not-defined, one or two text-matches, param-filter with is-not-defined or text-match; optional limit nresults 0/1/2/large). "
    "Oracle: reference evaluator over independently parsed cards (a prop-filter matches if some instance satisfies all its children); the report must answer exactly the matching member cards, address-data "
    "must equal GET, with a limit the answers are min(n, matches) many and a subset of the matches; no request may fail. i;unicode-casemap verdicts depending on non-ASCII case are not asserted. "
    "Non-trivial: expected result neither empty nor everything; distinct by case hash (grid: every (match-type, collation, negate, needle) point)."
)

GRID_VALUES = ["John Doe", "Jane Roe", "Zoë Müller", "日本 太郎", "Bob", "alice cooper", "ALICE Cooper"]
GRID_NEEDLES = ["John Doe", "John", "Doe", "hn D", "JOHN DOE", "joh", "ZOË MÜLLER", "zoë", "xyz", "", "Bobby", "日本 太郎", "ë M", "alice cooper", "John ", " Doe", " ", "Bob ", " alice"]
MATCH_TYPES = [None, "contains", "equals", "starts-with", "ends-with"]
COLLS = [None, "i;ascii-casemap", "i;octet", "i;unicode-casemap"]


def card(fn, uid, extra=()):
    parts = fn.split(" ", 1)
    lines = ["BEGIN:VCARD", "VERSION:3.0", f"FN:{fn}", f"N:{parts[1] if len(parts) > 1 else ''};{parts[0]};;;", f"UID:{uid}"] + list(extra) + ["END:VCARD", ""]
    return "\r\n".join(lines).encode("utf-8")


def setup_book(world, cards):
    coll = "/user/contacts/ab"
    r = world.request("wsgi", "MKCOL", coll, [dav.XML_CT], dav.mkcol_body("D:mkcol", [("{DAV:}resourcetype", ("xml", "<D:collection/><A:addressbook/>"))]))
    if r.status != 201:
        raise RuntimeError(f"cannot create address book: {r.status} {r.exc}")
    bodies = {}
    for i, raw in enumerate(cards):
        name = f"c{i}.vcf"
        r = world.request("wsgi", "PUT", coll + "/" + name, [("Content-Type", "text/vcard")], raw)
        if dav.acknowledged(r):
            bodies[name] = raw
    return coll, bodies


def run_query(world, fe, coll, flt, limit=None):
    body = dav.abquery_body(filterref.card_filter_xml(flt), limit=limit)
    r = world.request(fe, "REPORT", coll + "/", [("Depth", "1"), dav.XML_CT], body)
    ms = dav.parse_ms(r)
    if ms is None:
        return None, r
    out = []
    for resp in ms.responses:
        p = dav.href_path(resp.href) or ""
        out.append((p, resp.prop_text("{urn:ietf:params:xml:ns:carddav}address-data"), resp))
    return out, r


def judge(world, fe, coll, bodies, flt, limit, known_fn):
    """-> (violation or None, info)."""
    got, r = run_query(world, fe, coll, flt, limit)
    desc = f"addressbook-query {json.dumps(flt, ensure_ascii=False)} limit={limit} via {fe}"
    if got is None:
        return {"sig": f"report-failed:{(r.exc or str(r.status)).split('@')[-1].strip()[:60]}", "detail": f"{desc} answered {r.status} {r.exc or r.body[:300]!r}"}, {}
    expected, unasserted = set(), set()
    for n, raw in bodies.items():
        v = filterref.card_matches(flt or {}, raw)
        if v is None:
            unasserted.add(n)
        elif v:
            expected.add(n)
    names = []
    for p, data, resp in got:
        n = p.rsplit("/", 1)[-1]
        if p.rstrip("/").endswith(coll) or n == "":
            kf = known_fn("collection-in-result", flt, None, True)
            if kf:
                continue
            return {"sig": "collection-returned-as-result", "detail": f"{desc}: the address book collection itself ({p}) is among the results"}, {}
        if n not in bodies:
            return {"sig": "non-member-result", "detail": f"{desc}: result {p!r} is not a member"}, {}
        names.append(n)
        if data is not None:
            g = world.request("wsgi", "GET", coll + "/" + n)
            if data.encode("utf-8").replace(b"\r\n", b"\n") != g.body.replace(b"\r\n", b"\n"):
                return {"sig": "address-data-differs", "detail": f"{desc}: address-data of {n} differs from GET"}, {}
    if len(set(names)) != len(names):
        return {"sig": "duplicate-result", "detail": f"{desc}: duplicate results {names}"}, {}
    gotset = set(names)
    asserted = set(bodies) - unasserted
    if limit is None:
        diff = (gotset ^ expected) & asserted
        for n in sorted(diff):
            kind = "extra" if n in gotset else "missing"
            return {"sig": f"{kind}:{shape(flt)}", "detail": f"{desc}: {n} is {kind}; expected {sorted(expected)} got {sorted(gotset)}; card {bodies[n].decode()!r}"}, {}
    else:
        if not unasserted:
            if len(gotset) != min(limit, len(expected)):
                return {"sig": "limit-count", "detail": f"{desc}: {len(gotset)} answers, expected min({limit}, {len(expected)})"}, {}
            if not gotset <= expected:
                return {"sig": "limit-not-subset", "detail": f"{desc}: answers {sorted(gotset)} not a subset of the matches {sorted(expected)}"}, {}
    return None, {"expected": len(expected), "asserted": len(asserted), "unasserted": len(unasserted)}


def shape(flt):
    if not flt or not flt.get("props"):
        return "empty"
    parts = [flt.get("test") or "default"]
    for pf in flt["props"]:
        if pf.get("is_not_defined"):
            parts.append("undef")
        elif pf.get("text_matches"):
            for tm in pf["text_matches"]:
                parts.append("tm:" + (tm.get("match_type") or "dflt") + ("-neg" if tm.get("negate") else ""))
        elif pf.get("params"):
            parts.append("param" + ("-undef" if pf["params"][0].get("is_not_defined") else "-tm" if pf["params"][0].get("text_match") else ""))
        else:
            parts.append("present")
    return "+".join(sorted(set(parts)))


def no_known(kind, flt, raw, got):
    return None


def grid_points():
    return list(itertools.product(MATCH_TYPES, COLLS, [False, True], GRID_NEEDLES))


def grid_shard(shard, points):
    out = {"evaluations": 0, "nontrivial": set(), "violations": {}, "stats": collections.Counter(), "errors": [], "samples": []}
    mine = [p for i, p in enumerate(points) if i % runner.NSHARDS == shard]
    if not mine:
        return out
    world = World()
    try:
        cards = [card(v, f"g{i}") for i, v in enumerate(GRID_VALUES)]
        coll, bodies = setup_book(world, cards)
        for k, (mt, co, neg, needle) in enumerate(mine):
            tm = {"text": needle, "collation": co, "negate": neg}
            if mt:
                tm["match_type"] = mt
            flt = {"test": None, "props": [{"name": "FN", "text_matches": [tm]}]}
            fe = "aio" if k % 5 == 0 else "wsgi"
            viol, info = judge(world, fe, coll, bodies, flt, None, no_known)
            out["evaluations"] += 1
            out["nontrivial"].add(f"{mt}|{co}|{neg}|{needle}")
            out["stats"][f"triple:{mt}|{co}|{neg}"] += 1
            if info.get("unasserted"):
                out["stats"]["unasserted-cards"] += info["unasserted"]
            if len(out["samples"]) < 1:
                out["samples"].append({"engine": "grid", "filter": flt, "values": GRID_VALUES})
            if viol:
                out["violations"].setdefault("grid:" + viol["sig"], (viol["detail"], {"engine": "grid", "point": [mt, co, neg, needle]}))
    except Exception:
        import traceback

        out["errors"].append(traceback.format_exc())
    finally:
        world.close()
    out["stats"] = dict(out["stats"])
    return out


# ---------------------------------------------------------------------------
# generated

TEXT_TARGETS = ["FN", "EMAIL", "TEL", "NOTE", "NICKNAME", "UID", "X-CUSTOM", "ORG", "CATEGORIES"]
PRESENCE_TARGETS = TEXT_TARGETS + ["N", "ADR", "PHOTO", "BDAY"]


def _mixed(draw, name):
    return draw(st.sampled_from([name, name.lower(), name.title()]))


def _vals(cards, pname):
    out = []
    for raw in cards:
        try:
            c = icalref.parse_one(raw, "VCARD")
        except icalref.ParseError:
            continue
        for p in c.get(pname):
            out.append(icalref.unescape_text(p.value))
    return out


@st.composite
def card_tm(draw, cands):
    mode = draw(st.sampled_from(["equal", "prefix", "suffix", "infix", "case", "absent", "word-edge", "padded", "empty"]))
    cands = [c for c in cands if c and "\n" not in c]
    if mode == "empty":
        text = ""
    elif not cands or mode == "absent":
        text = draw(st.sampled_from(["zzz", "example", "John", "@"]))
    else:
        v = draw(st.sampled_from(cands))
        if mode == "equal":
            text = v
        elif mode == "case":
            text = v.swapcase()
        elif mode == "word-edge" and " " in v.strip():
            # a needle that begins or ends with the white space between two words (the text is literal)
            k = v.index(" ", 1) if " " in v[1:] else 0
            text = draw(st.sampled_from([v[: k + 1], v[k:], " "]))
        elif mode == "padded":
            text = draw(st.sampled_from([" " + v, v + " ", v[:3] + " "]))
        elif mode == "prefix":
            text = v[: draw(st.integers(1, len(v)))]
        elif mode == "suffix":
            text = v[draw(st.integers(0, len(v) - 1)) :]
        else:
            i = draw(st.integers(0, len(v) - 1))
            text = v[i : draw(st.integers(i + 1, len(v)))]
    tm = {"text": text, "collation": draw(st.sampled_from(COLLS)), "negate": draw(st.integers(0, 3)) == 0}
    mt = draw(st.sampled_from(MATCH_TYPES))
    if mt:
        tm["match_type"] = mt
    return tm


def _multi_instances(cards):
    """[(prop name, [(value, [TYPE values])...])] for properties that occur >= 2 times in one card."""
    out = []
    for raw in cards:
        try:
            c = icalref.parse_one(raw, "VCARD")
        except icalref.ParseError:
            continue
        for name in ("EMAIL", "TEL"):
            ps = c.get(name)
            if len(ps) >= 2:
                out.append((name, [(icalref.unescape_text(p.value), p.param("TYPE") or []) for p in ps]))
    return out


@st.composite
def cross_instance_filter(draw, cards):
    """Two conditions of one prop-filter that are each true on a *different* instance of a repeated
    property: the prop-filter must match only if a single instance satisfies both."""
    multi = _multi_instances(cards)
    if not multi:
        return None
    name, insts = draw(st.sampled_from(multi))
    i = draw(st.integers(0, len(insts) - 1))
    j = draw(st.integers(0, len(insts) - 1))
    va, ta = insts[i]
    vb, tb = insts[j]
    tm_a = {"text": va, "collation": "i;octet", "negate": False, "match_type": draw(st.sampled_from(["equals", "contains"]))}
    if tb and draw(st.booleans()):
        return {"name": name, "text_matches": [tm_a], "params": [{"name": "TYPE", "text_match": {"text": tb[0], "collation": "i;octet", "negate": False, "match_type": "equals"}}]}
    if not tb and draw(st.booleans()):
        return {"name": name, "text_matches": [tm_a], "params": [{"name": "TYPE", "is_not_defined": True}]}
    return {"name": name, "text_matches": [tm_a, {"text": vb[-4:], "collation": "i;octet", "negate": False, "match_type": "ends-with"}]}


@st.composite
def card_prop_filter(draw, cards):
    kind = draw(st.sampled_from(["present", "undef", "tm", "tm", "tm", "tm2", "param-undef", "param-tm", "cross", "cross"]))
    if kind == "cross":
        f = draw(cross_instance_filter(cards))
        if f is not None:
            return f
        kind = "tm2"
    if kind == "present":
        return {"name": _mixed(draw, draw(st.sampled_from(PRESENCE_TARGETS)))}
    if kind == "undef":
        return {"name": _mixed(draw, draw(st.sampled_from(PRESENCE_TARGETS))), "is_not_defined": True}
    if kind in ("tm", "tm2"):
        name = draw(st.sampled_from(TEXT_TARGETS))
        tms = [draw(card_tm(_vals(cards, name))) for _ in range(2 if kind == "tm2" else 1)]
        return {"name": _mixed(draw, name), "text_matches": tms}
    name = draw(st.sampled_from(["EMAIL", "TEL", "ADR", "FN"]))
    multi = []
    for raw in cards:
        try:
            c = icalref.parse_one(raw, "VCARD")
        except icalref.ParseError:
            continue
        for p_ in c.props:
            vals = p_.param("TYPE")
            if vals and len(vals) >= 2:
                multi.append((p_.name, list(vals)))
    if multi and kind != "param-undef" and draw(st.booleans()):
        # a parameter with several values: the text-match (plain or negated) concerns each value on its own
        pn, vals = draw(st.sampled_from(multi))
        v = draw(st.sampled_from(vals))
        tm = {"text": draw(st.sampled_from([v, v.swapcase(), v[:2]])), "collation": draw(st.sampled_from(COLLS)), "negate": draw(st.booleans())}
        mt = draw(st.sampled_from(MATCH_TYPES))
        if mt:
            tm["match_type"] = mt
        return {"name": _mixed(draw, pn), "params": [{"name": "TYPE", "text_match": tm}]}
    if kind == "param-undef":
        return {"name": _mixed(draw, name), "params": [{"name": "TYPE", "is_not_defined": True}]}
    return {"name": _mixed(draw, name), "params": [{"name": "TYPE", "text_match": draw(card_tm(["HOME", "WORK", "home", "CELL", "VOICE"]))}]}


@st.composite
def gen_case(draw):
    cards = []
    for i in range(draw(st.integers(3, 8))):
        c = draw(gen.vcard(uid=f"k{i}", style={"eol": draw(st.sampled_from(["\r\n", "\n"])), "fold": 0, "case": "upper", "shuffle": 0, "final_eol": True}))
        cards.append(c["raw"])
    nf = draw(st.sampled_from([0, 1, 1, 1, 2, 2, 3]))
    flt = {"test": draw(st.sampled_from([None, "anyof", "allof"])), "props": [draw(card_prop_filter(cards)) for _ in range(nf)]}
    if nf == 0 and draw(st.booleans()):
        flt = None
    limit = draw(st.sampled_from([None, None, None, 0, 1, 2, 1000]))
    return {"cards": [enc_body(c) for c in cards], "filter": flt, "limit": limit, "fe": draw(st.sampled_from(["wsgi", "aio"]))}


def run_gen_case(case):
    from .. import findings

    cards = [body_of({"body": b}) for b in case["cards"]]
    world = World()
    try:
        coll, bodies = setup_book(world, cards)
        viol, info = judge(world, case["fe"], coll, bodies, case["filter"], case["limit"], findings.c12_known)
        out = {"ok": viol is None, "violation": None, "known": {}, "stats": {}}
        if viol:
            out["violation"] = {"oracle": "abquery", "sig": viol["sig"], "detail": viol["detail"]}
        out["nontrivial"] = bool(info) and 0 < info["expected"] < info["asserted"]
        out["labels"] = ["shape:" + shape(case["filter"])] + (["limit"] if case["limit"] is not None else []) + (["unasserted"] if info.get("unasserted") else []) + ([f"cards-refused:{len(cards) - len(bodies)}"] if len(bodies) != len(cards) else [])
        return out
    finally:
        world.close()


def gen_run_one(case):
    r = run_gen_case(case)
    r["key"] = hashlib.sha1(json.dumps(case, sort_keys=True).encode()).hexdigest()
    r["size"] = len(case["cards"])
    r["sample"] = case
    return r


def gen_strategy():
    return gen_case()


def main(tier, seed):
    res = runner.CheckResult(ID, tier, seed)
    res.rule = RULE
    pts = grid_points()
    shards = runner.run_shards(grid_shard, points=pts)
    gstats = collections.Counter()
    for sr in shards:
        if "error" in sr:
            res.errors.append(sr["error"])
            continue
        res.evaluations += sr["evaluations"]
        res.nontrivial |= sr["nontrivial"]
        res.errors.extend(sr["errors"])
        gstats.update(sr["stats"])
        res.samples.extend(sr["samples"][:1])
        for sig, (detail, case) in sr["violations"].items():
            res.add_violation(sig, detail, case)
    res.samples = res.samples[:1]
    triples = {k for k in gstats if k.startswith("triple:")}
    res.extra["grid"] = {"points": len(pts), "exhaustive": True, "triples_hit": len(triples), "unasserted_cards": gstats.get("unasserted-cards", 0)}
    if len(triples) != len(MATCH_TYPES) * len(COLLS) * 2:
        res.errors.append("grid: not every (match-type, collation, negate) triple was hit")
    shards = runner.run_shards(runner.machine_shard, seed=seed, examples=40 if tier == "quick" else 500, strategy_factory=gen_strategy, run_one=gen_run_one)
    sub = runner.CheckResult(ID, tier, seed)
    viols = runner.merge_machine(sub, shards)
    res.evaluations += sub.evaluations
    res.nontrivial |= sub.nontrivial
    res.errors.extend(sub.errors)
    res.known.update(sub.known)
    res.samples.extend(sub.samples[:2])
    res.extra["generated"] = {"cases": sub.evaluations, "nontrivial": len(sub.nontrivial), "labels": sub.extra.get("labels", {})}
    for sig, v in viols.items():
        res.add_violation("gen:" + sig, v["violation"]["detail"], {"engine": "gen", "case": v["case"]})
    res.assumptions = [
        "structured values (N, ADR, ORG) and CATEGORIES are used for presence tests only",
        "i;unicode-casemap verdicts that depend on the case of non-ASCII letters are not asserted (RFC 5051 documented as not fully implemented)",
        "parameter names are sent in upper case",
    ]
    return res


def replay(obj):
    if obj.get("engine") == "gen":
        r = run_gen_case(obj["case"])
        return r["ok"], (r["violation"] or {}).get("detail")
    if obj.get("engine") == "grid":
        out = grid_shard(0, [tuple(obj["point"])])
        bad = list(out["violations"].values())
        return (not bad), (bad[0][0] if bad else None)
    return True, None
