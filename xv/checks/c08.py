"""C08 — the collection tag changes exactly when the collection changes."""
from .. import gen_prog
from ._machine import MachineCheck

ID = "C08"
RULE = (
    "C01-style generated histories over >=3 collections. After every step getctag (DAV: and calendarserver namespaces), sync-token and the collection's getetag are read for every "
    "collection and must agree; over all pairs of points of a history, per collection incarnation: different member maps (names+bytes) => different tags; no acknowledged write to this "
    "collection in between => equal tags; git collections: equal member maps and no property change in between => equal tags. Non-trivial program: a collection returned to an earlier "
    "member map (delete-recreate / revert) while another collection was written; distinct by program hash."
)


def strategy():
    return gen_prog.program(
        weights={"PUT": 12, "PUT-invalid": 2, "POST": 1, "DELETE": 6, "DELETE-coll": 1, "MKCOL": 2, "PROPPATCH": 4, "GET": 1, "PROPFIND": 1, "REPORT": 1, "RECREATE": 2, "RESTART": 2, "READ": 7},
        min_steps=10,
        max_steps=28,
        cond_rate=6,
        fancy_names=False,
        sparse_rate=3,
        locked_rate=7,
        bare_colours=True,
        bulk_plain=True,
    )


def nontrivial(program, st, r):
    if st.get("ctag:returned-to-earlier-content", 0) < 1:
        return False
    colls = {s["coll"] for s in program["steps"] if s["op"] in ("PUT", "POST", "DELETE") and s.get("coll")}
    return len(colls) >= 2


CHECK = MachineCheck(ID, RULE, ("content", "ctag"), strategy, nontrivial, quick=20, thorough=300, assumptions=["sub-collections are not part of a collection's member map (the tag covers object resources)", "for the versioned .xandikos file the tag may differ between states with equal properties set in a different order; only 'same metadata epoch' is asserted equal"])
main = CHECK.main
replay = CHECK.replay
