"""C03 — conditional requests are honoured and have no effect when they fail."""
import hashlib
import itertools
import json

from .. import gen_prog, runner
from ..machine import enc_body, run_program
from ._machine import MachineCheck
from . import c01_store
from ..storemachine import store_program

ID = "C03"
RULE = (
    "(a) generated histories in which PUT/DELETE/GET/HEAD carry If-Match / If-None-Match built from the current ETag, stale ETags of the same path, "
    "ETags of other resources, '*', lists with varied spacing, never-issued, weak, unquoted and half-quoted values; the model evaluates the precondition "
    "with RFC 7232 strong comparison and demands 412 + no change (PUT/DELETE) or 304 without body (GET/HEAD) exactly when it says so; "
    "(b) a grid of resource state x header form x method x front end x back end (sampled in quick, full in thorough); "
    "(c) store-API histories with replace_etag/etag arguments on the four back ends. Non-trivial = a request whose outcome is decided by a stale ETag or by '*' "
    "against an absent resource; distinct by (method, header kinds, front end, truth value) for (a)/(b) and by program hash for (c)."
)


def strategy():
    return gen_prog.program(
        weights={"PUT": 12, "PUT-invalid": 1, "POST": 0, "DELETE": 5, "DELETE-coll": 2, "MKCOL": 1, "RECREATE": 1, "PROPPATCH": 1, "GET": 5, "PROPFIND": 0, "REPORT": 0, "RESTART": 1, "CONDRACE": 3},
        min_steps=10,
        max_steps=25,
        cond_rate=1,
        focus=True,
        fancy_names=False,
    )


def nontrivial(program, st, r):
    return [f"{k}" for k in getattr(r, "cond_nontrivial", set())]


def labels(program, st, r):
    return [k for k in st if k.startswith("cond:") and k != "cond:nontrivial"]


CHECK = MachineCheck(ID, RULE, ("content", "cond"), strategy, nontrivial, labels=labels, quick=25, thorough=300)
replay_machine = CHECK.replay

# ---------------------------------------------------------------------------
# (b) the grid

ICS = "BEGIN:VCALENDAR\r\nVERSION:2.0\r\nPRODID:-//xv//EN\r\nBEGIN:VEVENT\r\nUID:%s\r\nDTSTART:20200101T000000Z\r\nSUMMARY:%s\r\nEND:VEVENT\r\nEND:VCALENDAR\r\n"

STATES = ["never", "v1", "v2", "deleted", "recreated"]

HEADER_FORMS = []
for hdr in ("If-Match", "If-None-Match"):
    for items in (
        [{"kind": "current"}],
        [{"kind": "stale", "k": 0}],
        [{"kind": "other", "k": 0}],
        [{"kind": "star"}],
        [{"kind": "never"}],
        [{"kind": "stale", "k": 0}, {"kind": "current"}],
        [{"kind": "never"}, {"kind": "other", "k": 0}, {"kind": "current"}],
        [{"kind": "never"}, {"kind": "stale", "k": 0}],
        [{"kind": "weak-current"}],
        [{"kind": "never"}, {"kind": "weak-current"}],
        [{"kind": "unquoted-current"}],
        [{"kind": "halfquoted-current"}],
        [{"kind": "literal", "v": ""}],
        [{"kind": "literal", "v": " "}],
    ):
        for sep in (", ", ","):
            if len(items) == 1 and sep == ",":
                continue
            HEADER_FORMS.append({"hdr": hdr, "items": items, "sep": sep})
HEADER_FORMS.append(None)  # both headers: If-Match current + If-None-Match star


def grid_cases():
    for state, hf, method, fe, backend in itertools.product(STATES, range(len(HEADER_FORMS)), ["PUT", "DELETE", "GET", "HEAD"], ["wsgi", "aio"], ["tree", "bare"]):
        form = HEADER_FORMS[hf]
        if form is not None and method in ("GET", "HEAD") and form["hdr"] == "If-Match":
            continue
        if form is not None and method == "DELETE" and form["hdr"] == "If-None-Match":
            continue
        yield (state, hf, method, fe, backend)


def grid_program(case):
    state, hf, method, fe, backend = case
    coll = "c1" if backend == "tree" else "b1"
    cfg = {"prefix": "/dav/", "seed": [{"slot": "b1", "bare": True, "meta": "config", "kind": "calendar"}] if backend == "bare" else []}
    steps = []
    if backend == "tree":
        steps.append({"op": "MKCOL", "fe": "wsgi", "coll": "c1", "kind": "mkcalendar"})

    def put(name, uid, summ):
        return {"op": "PUT", "fe": "wsgi", "coll": coll, "name": name, "ctype": "text/calendar", "body": enc_body((ICS % (uid, summ)).encode()), "cond": []}

    steps.append(put("other.ics", "uo", "other"))
    if state in ("v1", "v2", "deleted", "recreated"):
        steps.append(put("t.ics", "ut", "one"))
    if state in ("v2", "deleted", "recreated"):
        steps.append(put("t.ics", "ut", "two"))
    if state in ("deleted", "recreated"):
        steps.append({"op": "DELETE", "fe": "wsgi", "coll": coll, "name": "t.ics", "cond": []})
    if state == "recreated":
        steps.append(put("t.ics", "ut", "three"))
    form = HEADER_FORMS[hf]
    cond = [form] if form is not None else [{"hdr": "If-Match", "items": [{"kind": "current"}], "sep": ", "}, {"hdr": "If-None-Match", "items": [{"kind": "star"}], "sep": ", "}]
    if method == "PUT":
        steps.append({"op": "PUT", "fe": fe, "coll": coll, "name": "t.ics", "ctype": "text/calendar", "body": enc_body((ICS % ("ut", "final")).encode()), "cond": cond})
    elif method == "DELETE":
        steps.append({"op": "DELETE", "fe": fe, "coll": coll, "name": "t.ics", "cond": cond})
    else:
        steps.append({"op": "GET", "method": method, "fe": fe, "coll": coll, "name": "t.ics", "cond": cond})
    return {"config": cfg, "steps": steps}


def grid_shard(shard, cases):
    out = {"evaluations": 0, "nontrivial": set(), "violations": {}, "stats": {}, "errors": []}
    import collections

    stats = collections.Counter()
    for i, case in enumerate(cases):
        if i % runner.NSHARDS != shard:
            continue
        prog = grid_program(case)
        r = run_program(prog, observers=("content", "cond"))
        out["evaluations"] += 1
        for k, v in r["stats"].items():
            if k.startswith("cond:"):
                stats[k] += v
        for k in getattr(r["runner"], "cond_nontrivial", set()):
            out["nontrivial"].add("grid:" + str(k) + ":" + case[0])
        if not r["ok"]:
            sig = r["violation"]["sig"]
            if sig not in out["violations"]:
                out["violations"][sig] = (r["violation"], prog, case)
    out["stats"] = dict(stats)
    return out


def store_strategy():
    return store_program(etag_rate=1, with_cards=True)


def main(tier, seed):
    res = CHECK.main(tier, seed)
    # grid
    cases = list(grid_cases())
    total = len(cases)
    if tier == "quick":
        import random

        rnd = random.Random(seed)  # sampling of an enumerated finite list, outside any property
        cases = rnd.sample(cases, 480)
    shards = runner.run_shards(grid_shard, cases=cases)
    gstats = {}
    for sr in shards:
        if "error" in sr:
            res.errors.append(sr["error"])
            continue
        res.evaluations += sr["evaluations"]
        res.nontrivial |= sr["nontrivial"]
        for k, v in sr["stats"].items():
            gstats[k] = gstats.get(k, 0) + v
        for sig, (viol, prog, case) in sr["violations"].items():
            res.add_violation(f"grid/{viol['oracle']}/{sig}", viol["detail"] + f" [grid case {case}]", {"engine": "machine", "observers": ["content", "cond"], "program": prog})
    res.extra["grid"] = {"cases_total": total, "cases_run": len(cases), "exhaustive": len(cases) == total, "stats": gstats}
    # store API
    c01_store.run(res, tier, seed, examples=25 if tier == "quick" else 300, strategy=store_strategy)
    res.samples = res.samples[:2] + [{"engine": "grid", "case": list(cases[0]), "program": grid_program(cases[0])}] + res.samples[2:3]
    res.assumptions = [
        "malformed / unquoted header values, and weak validators in If-None-Match: either 'treated as not matching' or 400 is accepted; a non-success answer must still change nothing. A weak validator in If-Match is well formed and matches nothing (RFC 7232 3.1: strong comparison), so the request must be answered 412",
        "DELETE of an absent resource with If-Match may answer 404 or 412",
    ]
    return res


def replay(obj):
    if obj.get("engine") == "store":
        from ..storemachine import run_store_program

        r = run_store_program(obj["program"])
        return r["ok"], (r["violation"] or {}).get("detail")
    return replay_machine(obj)
