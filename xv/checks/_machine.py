"""Shared driver for the checks that ride on the request-history machine."""
from .. import runner
from ..machine import program_hash, run_program


class MachineCheck:
    """Subclass-free configuration object; everything picklable by module path."""

    def __init__(self, pid, rule, observers, strategy, nontrivial, labels=None, quick=12, thorough=150, key=None, assumptions=()):
        self.pid = pid
        self.rule = rule
        self.observers = tuple(observers)
        self.strategy = strategy  # module-level function returning a strategy
        self.nontrivial = nontrivial  # (program, stats, runner) -> bool or list of keys
        self.labels = labels
        self.quick = quick
        self.thorough = thorough
        self.assumptions = list(assumptions)

    def run_one(self, program):
        r = run_program(program, observers=self.observers)
        st = r["stats"]
        nt = self.nontrivial(program, st, r["runner"])
        labels = ["prefix:" + program["config"].get("prefix", "/")]
        if self.labels:
            labels += self.labels(program, st, r["runner"])
        keys = None
        if isinstance(nt, (list, set, tuple)):
            keys = [str(k) for k in nt]
        return {
            "ok": r["ok"],
            "violation": r["violation"],
            "stats": st,
            "known": r["known"],
            "nontrivial": bool(nt),
            "key": program_hash(program),
            "keys": keys,
            "size": len(program["steps"]),
            "labels": labels,
            "sample": program,
        }

    def still_fails(self, sig):
        def f(program):
            r = run_program(program, observers=self.observers)
            return (not r["ok"]) and r["violation"]["sig"] == sig

        return f

    def main(self, tier, seed, res=None):
        res = res or runner.CheckResult(self.pid, tier, seed)
        res.rule = self.rule
        examples = self.quick if tier == "quick" else self.thorough
        shards = runner.run_shards(runner.machine_shard, seed=seed, examples=examples, strategy_factory=self.strategy, run_one=self.run_one)
        viols = runner.merge_machine(res, shards)
        for sig, v in viols.items():
            prog = runner.ddmin_steps(v["case"], self.still_fails(sig), budget=80 if tier == "quick" else 300)
            rr = run_program(prog, observers=self.observers)
            detail = rr["violation"]["detail"] if not rr["ok"] else v["violation"]["detail"]
            res.add_violation(f"{v['violation']['oracle']}/{sig}", detail, {"engine": "machine", "observers": list(self.observers), "program": prog})
        st = res.extra.get("stats", {})
        if st.get("ack:PUT", 0) == 0:
            res.errors.append("vacuity guard: no PUT was ever acknowledged")
        res.assumptions = self.assumptions
        return res

    def replay(self, obj):
        r = run_program(obj["program"], observers=tuple(obj.get("observers") or self.observers))
        return r["ok"], (r["violation"] or {}).get("detail")
