"""C04 — a crash during a write leaves the old or the new state, never anything else."""
import collections
import hashlib
import json
import os
import shutil
import subprocess
import tempfile

from hypothesis import strategies as st

from .. import crash, env, gen, icalref, runner
from ..machine import body_of, enc_body
from ..storemachine import open_store

ID = "C04"
RULE = (
    "Hypothesis generates (back end in {tree-git, bare-git disk, vdir}, metadata back end in {versioned .xandikos file, git config section}, prior history of 0-5 puts/overwrites/deletes, one "
    "operation in {create, replace, no-op replace, delete, set displayname / colour / description / type, first write into an empty store}). The operation is run once in a forked child in counting "
    "mode: an audit hook numbers every file-system mutation under the store directory (open for writing, rename/replace, remove, mkdir, rmdir, truncate, chmod, utime, link, symlink, rmtree). Then for "
    "EVERY mutation k the operation is re-run from a pristine copy in a child that dies on entry to mutation k; for every mutation that opens a file for direct writing two more runs die after the "
    "file was created/truncated and after half of the bytes were written and flushed; one more run completes (acknowledged => new state). After each run the store is re-opened: it must open, list "
    "and serve every member completely, the {name: bytes} map must equal the old or the new state, the touched property must read old or new and all others unchanged, every ref must resolve and "
    "every object reachable from every ref must exist (dulwich walk + git fsck --connectivity-only). Non-trivial crash run: a point strictly after the first and before the last mutation of an "
    "operation that changes state; distinct by (case hash, point, variant). Crash points are enumerated exhaustively per generated operation."
)

PROPS = ["displayname", "color", "description", "type"]


@st.composite
def case(draw):
    backend = draw(st.sampled_from(["tree", "tree", "bare", "bare", "vdir"]))
    meta = draw(st.sampled_from(["file", "config"])) if backend != "vdir" else "file"
    names = ["a.ics", "b.ics", draw(gen.member_name(".ics", fancy=True)), "c.vcf"]
    plain = {"eol": "\r\n", "fold": 0, "case": "upper", "shuffle": 0, "final_eol": True}
    bodies = {n: [draw(gen.calendar_object(uid=f"u-{i}", style=plain))["raw"] for _ in range(2)] for i, n in enumerate(names[:3])}
    bodies["c.vcf"] = [draw(gen.vcard(uid="card"))["raw"], draw(gen.vcard(uid="card"))["raw"]]
    prior = []
    for _ in range(draw(st.integers(0, 5))):
        n = draw(st.sampled_from(names))
        if draw(st.integers(0, 4)) == 0:
            prior.append({"op": "delete", "name": n})
        else:
            prior.append({"op": "put", "name": n, "body": enc_body(draw(st.sampled_from(bodies[n])))})
    # properties set earlier (and acknowledged): none of them may be lost by a crash during a later write
    for pp in draw(st.lists(st.sampled_from(PROPS[:3]), max_size=3, unique=True)):
        prior.append({"op": "prop", "prop": pp, "value": {"displayname": "Old name", "color": "#112233", "description": "An old description"}[pp]})
    kind = draw(st.sampled_from(["create", "replace", "replace", "noop", "delete", "prop", "prop", "first"]))
    if kind == "first":
        prior = []
    n = draw(st.sampled_from(names))
    if kind in ("create", "replace", "noop", "first"):
        op = {"op": "put", "name": n, "body": enc_body(draw(st.sampled_from(bodies[n]))), "kind": kind}
    elif kind == "delete":
        op = {"op": "delete", "name": n, "kind": kind}
    else:
        p = draw(st.sampled_from(PROPS))
        v = {"displayname": "New display name", "color": "#AABBCC", "description": "A new description", "type": draw(st.sampled_from(["calendar", "addressbook"]))}[p]
        op = {"op": "prop", "prop": p, "value": v, "kind": "prop:" + p}
    return {"backend": backend, "meta": meta, "prior": prior, "op": op}


def apply_op(store, op):
    if op["op"] == "put":
        name = op["name"]
        store.import_one(name, "text/vcard" if name.endswith(".vcf") else "text/calendar", [body_of(op)])
    elif op["op"] == "delete":
        store.delete_one(op["name"])
    else:
        getattr(store, "set_" + op["prop"])(op["value"])


def model_apply(model, props, op):
    if op["op"] == "put":
        model[op["name"]] = body_of(op)
    elif op["op"] == "delete":
        model.pop(op["name"], None)
    else:
        props[op["prop"]] = op["value"]


def read_props(store):
    out = {}
    for p in PROPS:
        try:
            out[p] = getattr(store, "get_" + p)()
        except Exception as e:
            out[p] = f"<error {type(e).__name__}: {e}>"
    return out


def same(name, a, b):
    if a == b:
        return True
    if name.endswith(".ics"):
        return icalref.same_calendar(a, b)
    return False


def build_prior(cs, path):
    """Create the prior store; returns (model, props)."""
    kind = cs["backend"]
    store = open_store(kind, path, create=True)
    if kind != "vdir":
        if cs["meta"] == "config":
            c = store.repo.get_config()
            c.set(b"xandikos", b"type", b"calendar")
            c.write_to_path()
        else:
            store.set_type("calendar")
    model, props = {}, {}
    for op in cs["prior"]:
        try:
            apply_op(store, op)
        except Exception:
            continue  # e.g. delete of a missing name: not part of the acknowledged history
        model_apply(model, props, op)
    real = read_props(store)
    if kind != "vdir":
        store.repo.close()
    return model, real


def verify(cs, path, old, new, old_props, new_props, must_be_new=False):
    """-> None or (sig, detail)."""
    kind = cs["backend"]
    try:
        store = open_store(kind, path)
    except Exception as e:
        return "store-does-not-open", f"{type(e).__name__}: {e}"
    try:
        try:
            listed = {}
            for name, ct, etag in store.iter_with_etag():
                listed[name] = etag
        except Exception as e:
            return "listing-fails", f"iter_with_etag: {type(e).__name__}: {e}"
        state = {}
        for name in listed:
            try:
                state[name] = b"".join(store.get_file(name).content)
            except Exception as e:
                return "member-unreadable", f"get_file({name!r}): {type(e).__name__}: {e}"
        def eq(m):
            return set(m) == set(state) and all(same(n, m[n], state[n]) for n in m)

        is_old, is_new = eq(old), eq(new)
        if must_be_new and not is_new:
            return "acknowledged-write-lost", f"the operation returned, but the store holds {sorted(state)} instead of the new state {sorted(new)}"
        if not (is_old or is_new):
            diffs = [n for n in set(old) | set(new) | set(state) if not (n in state and ((n in old and same(n, old[n], state[n])) or (n in new and same(n, new[n], state[n])))) and not (n not in state and (n not in old or n not in new))]
            return "neither-old-nor-new", f"members {sorted(state)}; old {sorted(old)}; new {sorted(new)}; differing: {diffs[:3]}; e.g. {state.get(diffs[0], b'<absent>')[:120]!r}" if diffs else f"members {sorted(state)} old {sorted(old)} new {sorted(new)}"
        if kind != "vdir":
            # the collection tag (ctag / sync-token / collection ETag) must name the state that is served
            try:
                ctag = store.get_ctag()
                via = {name: etag for name, ct, etag in store.iter_with_etag(ctag) if name != ".xandikos"}
            except Exception as e:
                return "ctag-unusable", f"get_ctag / iter_with_etag(ctag): {type(e).__name__}: {e}"
            if via != {n: e for n, e in listed.items() if n != ".xandikos"}:
                return "ctag-names-other-state", f"the collection tag {ctag} lists {sorted(via.items())[:4]} but the store serves {sorted(listed.items())[:4]}"
        props = read_props(store)
        for p in PROPS:
            if props[p] not in (old_props[p], new_props[p]):
                return f"property-{p}-damaged", f"{p} reads {props[p]!r}; before the operation {old_props[p]!r}, after it {new_props[p]!r}"
        if must_be_new and props != new_props:
            return "acknowledged-property-lost", f"properties {props} expected {new_props}"
        if kind != "vdir":
            repo = store.repo
            try:
                seen = set()
                todo = []
                for ref, sha in repo.refs.as_dict().items():
                    todo.append(sha)
                while todo:
                    sha = todo.pop()
                    if sha in seen:
                        continue
                    seen.add(sha)
                    obj = repo.object_store[sha]
                    t = obj.type_name
                    if t == b"commit":
                        todo.append(obj.tree)
                        todo.extend(obj.parents)
                    elif t == b"tree":
                        for e in obj.items():
                            todo.append(e.sha)
            except KeyError as e:
                return "ref-to-missing-object", f"object {e} reachable from a ref does not exist"
            except Exception as e:
                return "ref-walk-fails", f"{type(e).__name__}: {e}"
            p = subprocess.run(["git", "-C", path, "fsck", "--connectivity-only", "--no-progress"], stdout=subprocess.PIPE, stderr=subprocess.PIPE, env=dict(os.environ, GIT_OPTIONAL_LOCKS="0", HOME=os.path.dirname(path), LC_ALL="C"))
            msgs = [ln for ln in (p.stdout + p.stderr).decode("utf-8", "replace").splitlines() if ln and not ln.startswith(("dangling ", "notice:", "Checking"))]
            if p.returncode != 0 and any("missing" in m or "broken" in m or "invalid" in m for m in msgs):
                return "git-fsck", f"git fsck --connectivity-only: {msgs[:4]}"
        return None
    finally:
        if kind != "vdir":
            try:
                store.repo.close()
            except Exception:
                pass


def run_case(cs):
    from .. import findings

    out = {"ok": True, "violation": None, "evaluations": 0, "nontrivial": [], "stats": collections.Counter(), "known": collections.Counter()}
    scratch = tempfile.mkdtemp(prefix="xv04-", dir=env.scratch_root())
    try:
        prior = os.path.join(scratch, "prior")
        work = os.path.join(scratch, "work")
        old, old_props = build_prior(cs, prior)
        new = dict(old)
        dummy = {}
        model_apply(new, dummy, cs["op"])
        op = cs["op"]

        def fn():
            s = open_store(cs["backend"], work)
            apply_op(s, op)

        # new properties: determined by a complete run
        crash.copy_store(prior, work)
        res, events = crash.run_in_child(work, fn, target=None)
        if res == "failed":
            # the operation is refused in this state (e.g. delete of a missing member): nothing to crash
            out["stats"]["op-refused"] += 1
            v = verify(cs, work, old, old, old_props, old_props)
            if v:
                out["ok"] = False
                out["violation"] = {"sig": f"refused-op-changed-state:{v[0]}", "detail": f"{op.get('kind')} on {cs['backend']} was refused ({events[-200:]}) but: {v[1]}"}
            return out
        st_new = open_store(cs["backend"], work)
        new_props = read_props(st_new)
        if cs["backend"] != "vdir":
            st_new.repo.close()
        v = verify(cs, work, old, new, old_props, new_props, must_be_new=True)
        out["evaluations"] += 1
        if v:
            out["ok"] = False
            out["violation"] = {"sig": f"{cs['backend']}:{op.get('kind')}:complete:{v[0]}", "detail": f"complete run of {op.get('kind')}: {v[1]}"}
            return out
        n = len(events)
        out["stats"][f"points:{cs['backend']}:{op.get('kind', '').split(':')[0]}"] = n
        changes = old != new or old_props != new_props
        ckey = hashlib.sha1(json.dumps(cs, sort_keys=True).encode()).hexdigest()[:12]
        for k in range(1, n + 1):
            ev, rel, _ = events[k - 1]
            variants = ["before"] + (["truncated", "half"] if ev == "open" and not rel.endswith(".lock") else []) + (["after"] if ev in ("os.rename", "os.replace") else [])
            for variant in variants:
                crash.copy_store(prior, work)
                res, info = crash.run_in_child(work, fn, target=k, variant=variant)
                if res in ("not-applicable", "completed"):
                    out["stats"][f"variant-skipped:{variant}"] += 1
                    continue
                if res == "failed":
                    out["stats"]["run-failed"] += 1
                    continue
                out["evaluations"] += 1
                out["stats"][f"crash:{variant}"] += 1
                if changes and 1 < k < n:
                    out["nontrivial"].append(f"{ckey}:{k}:{variant}")
                v = verify(cs, work, old, new, old_props, new_props)
                if v:
                    kf = findings.c04_known(cs, ev, rel, variant, v)
                    if kf:
                        out["known"][kf] += 1
                        continue
                    out["ok"] = False
                    out["violation"] = {"sig": f"{cs['backend']}:{op.get('kind')}:{variant}:{ev}:{_classify(rel)}:{v[0]}", "detail": f"{cs['backend']}/{cs['meta']} {op.get('kind')}: crash {variant} mutation {k}/{n} ({ev} {rel}): {v[1]}", "point": [k, variant]}
                    return out
                # after the restart the client sends the interrupted request again: if it is acknowledged the new
                # state must hold completely (what the crash left behind must not be taken for finished work)
                res2, info2 = crash.run_in_child(work, fn, target=None)
                out["stats"][f"retry:{res2}"] += 1
                v2 = verify(cs, work, old, new, old_props, new_props, must_be_new=(res2 == "counted"))
                if v2:
                    out["ok"] = False
                    out["violation"] = {"sig": f"{cs['backend']}:{op.get('kind')}:{variant}:{ev}:{_classify(rel)}:retry-{'acknowledged' if res2 == 'counted' else 'refused'}:{v2[0]}", "detail": f"{cs['backend']}/{cs['meta']} {op.get('kind')}: crash {variant} mutation {k}/{n} ({ev} {rel}), restart, the same request again ({res2}): {v2[1]}", "point": [k, variant]}
                    return out
        return out
    finally:
        shutil.rmtree(scratch, ignore_errors=True)


def _classify(rel):
    if rel.endswith(".lock"):
        return "lockfile"
    if "/objects/" in "/" + rel or rel.startswith("objects/"):
        return "object"
    if "/refs/" in "/" + rel or rel.startswith("refs/") or rel.endswith("HEAD"):
        return "ref"
    if "logs/" in rel:
        return "reflog"
    if rel.endswith("index"):
        return "index"
    return "file:" + os.path.basename(rel).split(".")[-1]


def run_one(cs):
    r = run_case(cs)
    return {
        "ok": r["ok"],
        "violation": ({"oracle": "crash", **r["violation"]} if r["violation"] else None),
        "stats": dict(r["stats"], crash_runs=r["evaluations"]),
        "known": dict(r["known"]),
        "nontrivial": bool(r["nontrivial"]),
        "keys": r["nontrivial"],
        "key": hashlib.sha1(json.dumps(cs, sort_keys=True).encode()).hexdigest(),
        "size": len(cs["prior"]),
        "labels": [f"backend:{cs['backend']}", f"op:{cs['op'].get('kind', '').split(':')[0]}", f"meta:{cs['meta']}"],
        "sample": cs,
    }


def strategy():
    return case()


def main(tier, seed):
    res = runner.CheckResult(ID, tier, seed, level="fault_enumeration")
    res.rule = RULE
    shards = runner.run_shards(runner.machine_shard, seed=seed, examples=12 if tier == "quick" else 150, strategy_factory=strategy, run_one=run_one)
    viols = runner.merge_machine(res, shards)
    cases = res.evaluations
    res.evaluations = res.extra.get("stats", {}).get("crash_runs", 0)
    res.extra["generated_operations"] = cases
    res.extra["exhaustive_per_operation"] = True
    for sig, v in viols.items():
        res.add_violation(sig, v["violation"]["detail"], {"engine": "crash", "case": v["case"], "point": v["violation"].get("point")})
    res.assumptions = [
        "process death, not power loss: data already handed to the kernel is durable (missing fsyncs are invisible)",
        "crash points inside a single write(2) of a lock file are not distinguished (invisible before the rename)",
        "whether later writes are possible after a crash (left-over index.lock) is outside the statement",
    ]
    return res


def replay(obj):
    r = run_case(obj["case"])
    return r["ok"], (r["violation"] or {}).get("detail")
