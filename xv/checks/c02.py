"""C02 — ETags are strong validators and agree across every view."""
from .. import gen_prog
from ._machine import MachineCheck

ID = "C02"
VIEWS = ["put", "get", "head", "propfind", "multiget", "query", "sync"]
RULE = (
    "C01-style generated histories weighted towards same-bytes overwrites, one-character changes, unrelated writes, PROPPATCH, reads and restarts. "
    "After every step the ETag of every member of the touched collections is collected from the PUT answer, GET, HEAD, PROPFIND getetag, "
    "calendar-/addressbook-multiget, calendar-/addressbook-query and sync-collection(empty token) and must be one value; over the whole history the maps "
    "ETag->served bytes and served bytes->ETag must both be functions per path. Non-trivial program: >=1 same-bytes overwrite, >=1 different-bytes overwrite, "
    ">=1 write to another resource between two observations of a member, and all seven views observed; distinct by program hash. "
    "RACE steps: a GET / multiget through the aiohttp front end is suspended where the handler hands the body read to a worker thread, a complete PUT of the same member runs, and the read "
    "resumes; the (ETag, body) pair received must be old/old or new/new."
)


def strategy():
    return gen_prog.program(
        weights={"PUT": 14, "PUT-invalid": 1, "POST": 1, "DELETE": 2, "DELETE-coll": 0, "MKCOL": 1, "PROPPATCH": 3, "GET": 1, "PROPFIND": 1, "REPORT": 1, "RECREATE": 1, "RACE": 3, "RESTART": 3},
        min_steps=8,
        max_steps=22,
        cond_rate=0,
        focus=True,
        locked_rate=7,
        untyped_rate=8,
    )


def nontrivial(program, st, r):
    if st.get("ack:same-bytes-overwrite", 0) < 1:
        return False
    if st.get("ack:overwrite", 0) - st.get("ack:same-bytes-overwrite", 0) < 1:
        return False
    if any(st.get("view:" + v, 0) == 0 for v in VIEWS):
        return False
    return st.get("ack:PUT", 0) >= 3


CHECK = MachineCheck(
    ID,
    RULE,
    ("content", "etagviews"),
    strategy,
    nontrivial,
    quick=30,
    thorough=400,
    assumptions=["whether the ETag equals the git blob id is not asserted (the property does not fix its construction)", "hash collisions are out of reach of generation"],
)


def store_strategy():
    from ..storemachine import store_program

    return store_program(etag_rate=6, with_cards=True, min_steps=8, max_steps=24)


def main(tier, seed):
    from . import c01_store

    res = CHECK.main(tier, seed)
    # the same bijection on the store API of all four back ends (tree-git, bare-git, in-memory git, vdir): the ETag a
    # write returns is the ETag every later listing reports, and it changes exactly when the bytes change
    c01_store.run(res, tier, seed, examples=25 if tier == "quick" else 300, strategy=store_strategy)
    return res


def replay(obj):
    if obj.get("engine") == "store":
        from ..storemachine import run_store_program

        r = run_store_program(obj["program"])
        return r["ok"], (r["violation"] or {}).get("detail")
    return CHECK.replay(obj)
