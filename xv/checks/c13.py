"""C13 — no request can touch the file system outside the data directory."""
import collections
import hashlib
import itertools
import json
import os
import posixpath
import shutil
import socket
import subprocess
import sys
import tempfile
import time
import urllib.parse

from hypothesis import strategies as st

from .. import dav, env, runner
from ..machine import enc_body, body_of
from ..world import World, raw_http

ID = "C13"
RULE = (
    "Request targets from an adversarial path grammar (real collection names, '..', '.', empty segment, Unicode compatibility look-alikes of '.', '..' and '/' (U+2024, U+2025, U+FF0E, U+FF0F, U+2215), %2e%2e, %2E., ..%2f, %2f, %5c.., doubly encoded ..%252f and %252e%252e, backslash climbs inside one segment (..%5C..%5C.., literal and encoded), several encoded climbs inside one segment, '..;x', 300-char segment, 'etc', names of sentinel "
    "directories that exist next to the data directory - including data.bak, whose name starts with the root's own name - and '.git'; 1-8 segments after a real base path, optional trailing slash, "
    "optional route prefix, targets without leading '/'; and the absolute file-system path of a sentinel (or of the data directory itself) behind one to four slashes) x method {GET, HEAD, PUT, POST, DELETE, MKCOL, extended MKCOL, MKCALENDAR, PROPFIND Depth 0/1, PROPPATCH, REPORT multiget (hrefs from the same "
    "grammar), sync, query, OPTIONS}; a third of the PUT/POST bodies carry a path-like UID (relative climbs, '..', an absolute name inside the harness' scratch area, the sibling data.bak, "
    "encoded climbs) and are mostly sent to collections that exist. Engine A: raw bytes (over a unix-domain socket) to a real listening `python -m xandikos`-equivalent process started through a launcher that installs an audit hook; engine B: the WSGI callable "
    "in-process with PATH_INFO as a WSGI server decodes it (dot segments kept, %2f decoded) under an audit hook. Oracles: (1) a snapshot (names, hashes) of everything around the data directory "
    "(secret/, an existing git repository victim/, an empty esc/, data.bak/) is unchanged after every request; (2) no audited open/listdir/scandir/mkdir/rename/remove/rmdir/rmtree/chmod event of the "
    "request's lifetime resolves to a path outside data/ other than the interpreter, library, source and git-config files seen during a warm-up of benign requests; (3) the request is refused (4xx) with an "
    "unchanged data tree, or its status class and the resulting tree of names under data/ equal those of the lexically normalised target sent to a twin server on a copy of the data directory (reads: to "
    "the same server; 5xx with unchanged tree: recorded, not a violation). Non-trivial: a target whose naive join with the data root leaves it at some prefix, or an accepted PUT/POST with a path-like UID; distinct by (method, target[, uid kind])."
)

# compatibility look-alikes of '.', '..' and '/': U+2025 two dot leader, U+FF0E fullwidth full stop, U+2024 one dot leader, U+FF0F fullwidth solidus, U+2215 division slash
LOOKALIKES = ["%E2%80%A5", "%EF%BC%8E%EF%BC%8E", "%E2%80%A4%E2%80%A4", "%EF%BC%8E", "%E2%80%A5%EF%BC%8F%E2%80%A5%EF%BC%8Fx.ics", "..%EF%BC%8F..%EF%BC%8Fsecret", "%E2%80%A5%E2%88%95%E2%80%A5", "%EF%BC%8E%EF%BC%8E%EF%BC%8Fdata.bak"]
SEGMENTS = LOOKALIKES + ["..%5C..", "..%5C..%5C..%5Csecret%5Ca.txt", "..", "..", "..", ".", "", "%2e%2e", "%2E.", ".%2e", "..%2f", "..%2f..", "%2f", "%5c..", "..;x", "..%252f", "%252e%252e", "..%252F..%252F..%252F..%252F..%252Fdd.ics", "..%2f..%2f..%2f..%2f..%2fsd.ics", "%252e%252e%252fx", "A" * 300, "etc", "secret", "victim", "esc", "data.bak", "data2", "data", ".git", "user", "calendars", "calendar", "x.ics", "newcol", "a.txt", "tmp"]
BASES = ["", "/user", "/user/calendars", "/user/calendars/calendar", "/user/contacts/addressbook", "/user/calendars/calendar/ev.ics"]
METHODS = ["GET", "HEAD", "PUT", "POST", "DELETE", "MKCOL", "MKCOL-ext", "MKCALENDAR", "PROPFIND0", "PROPFIND1", "PROPPATCH", "REPORT-multiget", "REPORT-sync", "REPORT-query", "OPTIONS"]

ICS = b"BEGIN:VCALENDAR\r\nVERSION:2.0\r\nPRODID:-//xv//c13//EN\r\nBEGIN:VEVENT\r\nUID:%s\r\nDTSTART:20200101T000000Z\r\nSUMMARY:c13\r\nEND:VEVENT\r\nEND:VCALENDAR\r\n"


ABS_TOKENS = ["@VICTIM@", "@VICTIM@", "@VICTIM@", "@SECRET@", "@BAK@", "@ESC@", "@DATA@"]


def expand_abs(t, scratch):
    """Replace the tokens by absolute paths (without their leading '/') of the sentinels of this run."""
    if "@" not in t:
        return t
    for tok, name in (("@VICTIM@", "victim"), ("@SECRET@", "secret"), ("@BAK@", "data.bak"), ("@ESC@", "esc"), ("@DATA@", "data")):
        t = t.replace(tok, urllib.parse.quote(os.path.join(scratch, name).lstrip("/")))
    return t


HOSTILE_UIDS = ["climb", "climb-ext", "climb-deep", "dotdot", "abs", "sibling", "encoded"]


def hostile_uid(kind, abs_base):
    return {
        "climb": "../../../../../../uid-escape",
        "climb-ext": "../../../../../uid-escape.ics",
        "climb-deep": "../" * 9 + "uid-escape-deep",
        "dotdot": "..",
        "abs": os.path.join(abs_base, "uid-escape-abs"),
        "sibling": "../../../../data.bak/uid-escape",
        "encoded": "..%2F..%2F..%2F..%2F..%2Fuid-escape-enc",
    }[kind]


TERMINALS = [
    "..%5C..%5C..%5C..%5C..%5Cbs.ics",
    "..%5c..%5c..%5c..%5c..%5c..%5cdata.bak%5cbs2.ics",
    "..\\..\\..\\..\\..\\raw-bs.ics",
    "%E2%80%A5%EF%BC%8F%E2%80%A5%EF%BC%8F%E2%80%A5%EF%BC%8F%E2%80%A5%EF%BC%8F%E2%80%A5%EF%BC%8Fuu.ics",
    "%EF%BC%8E%EF%BC%8E%EF%BC%8F%EF%BC%8E%EF%BC%8E%EF%BC%8F%EF%BC%8E%EF%BC%8E%EF%BC%8F%EF%BC%8E%EF%BC%8E%EF%BC%8Fnewcol",
    "..%252F..%252F..%252F..%252F..%252Fdd.ics",
    "..%252f..%252f..%252f..%252f..%252fdata.bak%252fy.ics",
    "..%2f..%2f..%2f..%2f..%2fsd.ics",
    "%2e%2e%2f%2e%2e%2f%2e%2e%2f%2e%2e%2f%2e%2e%2fx.ics",
    "%252e%252e%252f%252e%252e%252f%252e%252e%252f%252e%252e%252f%252e%252e%252fz.ics",
    "..%255c..%255c..%255cw.ics",
    "..%252F..%252F..%252F..%252F..%252Fnewcol",
    "..",
    "%2e%2e",
]


@st.composite
def target(draw, prefix):
    if draw(st.integers(0, 3)) == 0:
        # a single dangerous last segment directly below an existing collection
        base = draw(st.sampled_from(["/user/calendars/calendar", "/user/contacts/addressbook", "/user/calendars", "/user"]))
        return prefix.rstrip("/") + base + "/" + draw(st.sampled_from(TERMINALS))
    if draw(st.integers(0, 7)) == 0:
        # the absolute file-system path of something next to the data directory, behind 1-4 slashes
        return prefix.rstrip("/") + draw(st.sampled_from(["/", "//", "//", "///", "///", "////"])) + draw(st.sampled_from(ABS_TOKENS)) + draw(st.sampled_from(["", "/", "/ev.ics", "/ev.ics", "/x.ics", "/new.ics", "/a.txt", "/.git/HEAD"]))
    base = draw(st.sampled_from(BASES))
    n = draw(st.integers(1, 8))
    segs = [draw(st.sampled_from(SEGMENTS)) for _ in range(n)]
    t = base + "/" + "/".join(segs)
    if draw(st.integers(0, 3)) == 0:
        t += "/"
    if draw(st.integers(0, 15)) == 0:
        t = t.lstrip("/")  # target that does not start with '/'
        return t
    return prefix.rstrip("/") + t


@st.composite
def request(draw, prefix):
    m = draw(st.sampled_from(METHODS))
    t = draw(target(prefix))
    req = {"m": m, "t": t}
    if m == "REPORT-multiget":
        req["hrefs"] = [draw(target(prefix)) for _ in range(draw(st.integers(1, 3)))]
    req["uid"] = draw(st.integers(0, 99))
    if m in ("PUT", "POST") and draw(st.integers(0, 2)) == 0:
        # path-like text in the body (the UID), mostly sent to a collection that exists
        req["uidv"] = draw(st.sampled_from(HOSTILE_UIDS))
        if draw(st.integers(0, 3)) > 0:
            base = draw(st.sampled_from(["/user/calendars/calendar/", "/user/calendars/calendar", "/user/calendars/", "/user/contacts/addressbook/"]))
            req["t"] = prefix.rstrip("/") + base + (draw(st.sampled_from(["u.ics", "ev.ics", "..%2Fu.ics"])) if m == "PUT" and base.endswith("/") else "")
    return req


def escapes_root(t, prefix):
    """Does the naive join of the (decoded) target with the data root leave the root at some prefix?"""
    p = urllib.parse.unquote(t.split("?")[0])
    pre = prefix.rstrip("/")
    if pre and p.startswith(pre):
        p = p[len(pre):]
    depth = 0
    for seg in p.split("/"):
        if seg in ("", "."):
            continue
        if seg == "..":
            depth -= 1
            if depth < 0:
                return True
        else:
            depth += 1
    return False


def normalised_target(t, prefix):
    """Lexical normalisation inside the application's namespace (what 'the corresponding normalised path' means)."""
    path = t.split("?")[0]
    pre = prefix.rstrip("/")
    if pre and path.startswith(pre):
        path = path[len(pre):]
    if not path.startswith("/"):
        path = "/" + path
    dec = urllib.parse.unquote(path)
    trail = dec.endswith("/") and dec != "/"
    norm = posixpath.normpath(dec)
    if norm.startswith("//"):
        norm = norm[1:]
    if trail and norm != "/":
        norm += "/"
    return urllib.parse.quote(norm)


def build(req, tgt):
    """-> (method, headers, body) for target tgt."""
    m = req["m"]
    uid = ("c13-%d" % req.get("uid", 0)).encode()
    if req.get("uidv"):
        uid = hostile_uid(req["uidv"], req.get("abs_base", "/nonexistent-xv-c13")).encode()
    if m in ("GET", "HEAD", "DELETE", "OPTIONS"):
        return m, [], None
    if m == "PUT":
        return "PUT", [("Content-Type", "text/calendar")], ICS % uid
    if m == "POST":
        return "POST", [("Content-Type", "text/calendar")], ICS % uid
    if m == "MKCOL":
        return "MKCOL", [], None
    if m == "MKCOL-ext":
        return "MKCOL", [dav.XML_CT], dav.mkcol_body("D:mkcol", [("{DAV:}resourcetype", ("xml", "<D:collection/><C:calendar/>")), ("{DAV:}displayname", "x")])
    if m == "MKCALENDAR":
        return "MKCALENDAR", [dav.XML_CT], dav.mkcol_body("C:mkcalendar", [("{DAV:}displayname", "x")])
    if m in ("PROPFIND0", "PROPFIND1"):
        return "PROPFIND", [("Depth", m[-1]), dav.XML_CT], dav.propfind_body(["{DAV:}getetag", "{DAV:}resourcetype", "{DAV:}displayname"])
    if m == "PROPPATCH":
        return "PROPPATCH", [dav.XML_CT], dav.proppatch_body([("{DAV:}displayname", "pwned")])
    if m == "REPORT-multiget":
        return "REPORT", [("Depth", "1"), dav.XML_CT], dav.multiget_body("calendar", req.get("nhrefs") or req.get("hrefs", []))
    if m == "REPORT-sync":
        return "REPORT", [("Depth", "1"), dav.XML_CT], dav.sync_body("")
    if m == "REPORT-query":
        return "REPORT", [("Depth", "1"), dav.XML_CT], dav.calquery_body(dav.MATCH_ALL_CAL)
    raise ValueError(m)


def tree_names(root):
    out = []
    for d, dirs, files in os.walk(root):
        rel = os.path.relpath(d, root)
        if "/.git" in "/" + rel or rel.endswith(".git") or rel == ".git":
            # the inside of git control directories changes with every commit; only their presence counts
            dirs[:] = []
            continue
        dirs[:] = sorted(x for x in dirs)
        for x in dirs:
            out.append(os.path.join(rel, x) + "/")
        for f in files:
            out.append(os.path.join(rel, UUID_RE.sub("<uuid>", f)))  # server-chosen names of POSTed members
    return sorted(out)


def top_of(scratch):
    p = scratch
    for _ in range(NEST):
        p = os.path.dirname(p)
    return p


def snapshot_outside(scratch):
    """Everything in the harness's directory tree except data/, the server's $HOME, the twin and the audit log."""
    out = {}
    top = top_of(scratch)
    skip = {os.path.join(scratch, x) for x in ("data", "audit.log", "twin", "home")} | {os.path.join(top, "srv.sock")}
    for d, dirs, files in os.walk(top):
        dirs[:] = sorted(x for x in dirs if os.path.join(d, x) not in skip)
        out[os.path.relpath(d, top) + "/"] = "dir"
        for f in files:
            fp = os.path.join(d, f)
            if fp in skip:
                continue
            try:
                with open(fp, "rb") as fh:
                    out[os.path.relpath(fp, top)] = hashlib.sha1(fh.read()).hexdigest()
            except OSError as e:
                out[os.path.relpath(fp, top)] = f"unreadable:{e}"
    return out


NEST = 14  # deeper than any target can climb, so that an escaping request stays inside the harness's own directory


def make_scratch():
    top = tempfile.mkdtemp(prefix="xv13-", dir=env.scratch_root())
    scratch = os.path.join(top, *["n%d" % i for i in range(NEST)])
    os.makedirs(scratch)
    os.makedirs(os.path.join(scratch, "secret"))
    with open(os.path.join(scratch, "secret", "a.txt"), "w") as f:
        f.write("top secret\n")
    with open(os.path.join(scratch, "secret", "x.ics"), "wb") as f:
        f.write(ICS % b"secret")
    os.makedirs(os.path.join(scratch, "esc"))
    os.makedirs(os.path.join(scratch, "data.bak"))  # a sibling whose name merely starts with the root's name
    os.makedirs(os.path.join(scratch, "home"))
    # an existing calendar store next to the data directory
    import dulwich.repo

    v = os.path.join(scratch, "victim")
    sys.path.insert(0, env.REPO) if env.REPO not in sys.path else None
    from xandikos.icalendar import ICalendarFile
    from xandikos.store.git import TreeGitStore

    s = TreeGitStore.create(v)
    s.load_extra_file_handler(ICalendarFile)
    s.set_type("calendar")
    s.import_one("ev.ics", "text/calendar", [ICS % b"victim"])
    s.repo.close()
    return scratch


def audit_violations(lines, scratch, allow_exact, allow_prefix):
    data = os.path.join(scratch, "data")
    bad = []
    for ln in lines:
        parts = ln.rstrip("\n").split("\t")
        if len(parts) < 2:
            continue
        ev = parts[0]
        for p in parts[1:-1] if len(parts) > 2 else parts[1:]:
            if not p or p.startswith("<fd"):
                continue
            ap = os.path.normpath(os.path.join(data, p)) if not os.path.isabs(p) else os.path.normpath(p)
            rp = os.path.realpath(ap)
            if rp == data or rp.startswith(data + os.sep):
                continue
            if rp in allow_exact or any(rp == a or rp.startswith(a + os.sep) for a in allow_prefix):
                continue
            if rp == os.path.join(scratch, "home") or rp.startswith(os.path.join(scratch, "home") + os.sep):
                continue  # $HOME of the server process (git reads ~/.gitconfig)
            if os.path.dirname(rp) == TMPDIR and os.path.basename(rp).startswith("tmp") and not rp.startswith(top_of(scratch)):
                continue  # anonymous temporary files of the tempfile module; their names do not depend on the request
            bad.append((ev, p, rp))
    return bad


TMPDIR = os.path.realpath(tempfile.gettempdir())
UUID_RE = __import__("re").compile(r"[0-9a-f]{8}-[0-9a-f]{4}-[0-9a-f]{4}-[0-9a-f]{4}-[0-9a-f]{12}")
ALLOW_PREFIX = [os.path.realpath(p) for p in {sys.prefix, sys.base_prefix, env.REPO, env.VERIF, "/venv", "/usr/lib", "/usr/share", "/proc/self", "/dev"}]


# ---------------------------------------------------------------------------
# engine A: real server process


class RealServer:
    def __init__(self, prefix):
        self.prefix = prefix
        self.scratch = make_scratch()
        self.data = os.path.join(self.scratch, "data")
        self.log = os.path.join(self.scratch, "audit.log")
        # a unix-domain socket at the top of the harness's own directory: no TCP port to race for
        self.port = os.path.join(top_of(self.scratch), "srv.sock")
        envv = dict(os.environ, XV_AUDIT_LOG=self.log, XV_REPO=env.REPO, HOME=os.path.join(self.scratch, "home"), PYTHONDONTWRITEBYTECODE="1", TZ="UTC")
        envv.pop("EMAIL", None)
        self.proc = subprocess.Popen(
            [sys.executable, os.path.join(env.VERIF, "xv", "c13_server.py"), "serve", "-d", self.data, "--defaults", "-l", self.port, "--route-prefix", prefix, "--no-detect-systemd"],
            env=envv,
            stdout=subprocess.DEVNULL,
            stderr=subprocess.DEVNULL,
            cwd=self.scratch,
        )
        deadline = time.time() + 30
        while time.time() < deadline:
            try:
                c = socket.socket(socket.AF_UNIX, socket.SOCK_STREAM)
                c.settimeout(0.5)
                c.connect(self.port)
                c.close()
                break
            except OSError:
                if self.proc.poll() is not None:
                    raise RuntimeError("server exited during start-up")
                time.sleep(0.05)
        else:
            raise RuntimeError("server did not start")
        self.offset = 0

    def send(self, method, tgt, headers, body):
        head = f"{method} {tgt} HTTP/1.1\r\nHost: localhost\r\nConnection: close\r\n"
        for k, v in headers:
            head += f"{k}: {v}\r\n"
        if body is not None:
            head += f"Content-Length: {len(body)}\r\n"
        raw = head.encode("utf-8", "surrogateescape") + b"\r\n" + (body or b"")
        return raw_http(self.port, raw, timeout=20)

    def new_audit_lines(self):
        with open(self.log, "rb") as f:
            f.seek(self.offset)
            data = f.read()
            self.offset = f.tell()
        return data.decode("utf-8", "surrogateescape").splitlines()

    def close(self):
        try:
            self.proc.kill()
            self.proc.wait(10)
        except Exception:
            pass
        shutil.rmtree(top_of(self.scratch), ignore_errors=True)


# ---------------------------------------------------------------------------
# engine B: WSGI in process, with an audit hook (installed once per process)

_HOOK = {"on": False, "log": []}
_HOOK_INSTALLED = [False]
_EVENTS = {"open", "os.listdir", "os.scandir", "os.mkdir", "os.rename", "os.remove", "os.rmdir", "shutil.rmtree", "os.chmod", "os.truncate", "os.link", "os.symlink", "os.utime"}


def _hook(event, args):
    if not _HOOK["on"] or event not in _EVENTS:
        return
    paths = []
    for a in args[:2]:
        if isinstance(a, bytes):
            a = os.fsdecode(a)
        if isinstance(a, str):
            paths.append(a)
    _HOOK["log"].append(event + "\t" + "\t".join(paths) + "\t")


class WsgiServer:
    def __init__(self, prefix):
        if not _HOOK_INSTALLED[0]:
            sys.addaudithook(_hook)
            _HOOK_INSTALLED[0] = True
        self.prefix = prefix
        self.scratch = make_scratch()
        self.data = os.path.join(self.scratch, "data")
        self.world = World(prefix=prefix, root=self.scratch, create_principal=False)
        self.world.backend.create_principal("/user/", create_defaults=True)

    def send(self, method, tgt, headers, body):
        _HOOK["log"] = []
        _HOOK["on"] = True
        try:
            return self.world.request("wsgi", method, None, headers, body, raw_target=tgt)
        finally:
            _HOOK["on"] = False

    def new_audit_lines(self):
        lines, _HOOK["log"] = _HOOK["log"], []
        return lines

    def close(self):
        self.world.close()
        shutil.rmtree(top_of(self.scratch), ignore_errors=True)


def twin_outcome(server, req, ntgt):
    """Status class and resulting data tree of the normalised request on a copy of the data directory."""
    twin_scratch = os.path.join(server.scratch, "twin")
    shutil.rmtree(twin_scratch, ignore_errors=True)
    os.makedirs(twin_scratch)
    shutil.copytree(server.data, os.path.join(twin_scratch, "data"), symlinks=True)
    w = World(prefix=server.prefix, root=twin_scratch, create_principal=False)
    try:
        method, headers, body = build(req, ntgt)
        r = w.request("wsgi", method, None, headers, body, raw_target=server.prefix.rstrip("/") + ntgt)
        return r.status, tree_names(os.path.join(twin_scratch, "data"))
    finally:
        w.close()
        shutil.rmtree(twin_scratch, ignore_errors=True)
        if isinstance(server, WsgiServer):
            # the twin cleared the process-wide store cache; the engine under test re-opens its stores
            pass


READ_METHODS = {"GET", "HEAD", "PROPFIND0", "PROPFIND1", "REPORT-multiget", "REPORT-sync", "REPORT-query", "OPTIONS"}

WARMUP = [
    {"m": "PROPFIND1", "t": "/user/calendars/"},
    {"m": "PUT", "t": "/user/calendars/calendar/ev.ics", "uid": 1},
    {"m": "GET", "t": "/user/calendars/calendar/ev.ics"},
    {"m": "GET", "t": "/"},
    {"m": "GET", "t": "/user/"},
    {"m": "GET", "t": "/user/calendars/calendar/"},
    {"m": "MKCOL", "t": "/user/calendars/warm"},
    {"m": "MKCALENDAR", "t": "/user/calendars/warm2"},
    {"m": "PROPPATCH", "t": "/user/calendars/warm/"},
    {"m": "REPORT-sync", "t": "/user/calendars/calendar/"},
    {"m": "REPORT-query", "t": "/user/calendars/calendar/"},
    {"m": "REPORT-multiget", "t": "/user/calendars/calendar/", "hrefs": ["/user/calendars/calendar/ev.ics"]},
    {"m": "POST", "t": "/user/calendars/calendar/", "uid": 2},
    {"m": "DELETE", "t": "/user/calendars/warm2/"},
    {"m": "OPTIONS", "t": "/user/"},
    {"m": "GET", "t": "/nonexistent"},
    {"m": "GET", "t": "/user/calendars/calendar/.git/HEAD"},
]


def run_session_with_twin(engine, prefix, reqs):
    """Like run_session but computes the twin outcome before each request (state before the request)."""
    out = {"evaluations": 0, "nontrivial": set(), "violations": {}, "stats": collections.Counter(), "errors": []}
    server = (RealServer if engine == "real" else WsgiServer)(prefix)
    try:
        pre = prefix.rstrip("/")
        allow_exact = set()
        for w in WARMUP:
            tgt = pre + w["t"]
            method, headers, body = build(dict(w, hrefs=[pre + h for h in w.get("hrefs", [])]), tgt)
            server.send(method, tgt, headers, body)
            for ln in server.new_audit_lines():
                parts = ln.split("\t")
                for p in parts[1:-1]:
                    if p and not p.startswith("<fd"):
                        rp = os.path.realpath(p if os.path.isabs(p) else os.path.join(server.data, p))
                        if not rp.startswith(top_of(server.scratch)):
                            allow_exact.add(rp)
        snap0 = snapshot_outside(server.scratch)
        for req in reqs:
            orig = req
            if "@" in req["t"] or any("@" in h for h in req.get("hrefs", [])):
                req = dict(req, t=expand_abs(req["t"], server.scratch), hrefs=[expand_abs(h, server.scratch) for h in req.get("hrefs", [])])
                out["stats"][f"{engine}:absolute-path-target"] += 1
            if req.get("uidv"):
                req = dict(req, abs_base=top_of(server.scratch))  # absolute names point into the harness' own scratch area
                out["stats"][f"{engine}:hostile-uid:{req['m']}"] += 1
            tgt = req["t"]
            tree0 = tree_names(server.data)
            ntgt = normalised_target(tgt, prefix)
            is_read = req["m"] in READ_METHODS
            if not is_read:
                try:
                    tstatus, ttree = twin_outcome(server, req, ntgt)
                except Exception as e:
                    out["errors"].append(f"twin failed for {req}: {e!r}")
                    continue
            method, headers, body = build(req, tgt)
            try:
                r = server.send(method, tgt, headers, body)
            except Exception as e:
                out["errors"].append(f"{engine}: request {req} failed in the harness: {e!r}")
                continue
            lines = server.new_audit_lines()
            out["evaluations"] += 1
            out["stats"][f"{engine}:{req['m']}:{r.status // 100}xx"] += 1
            case = {"engine": engine, "prefix": prefix, "request": {k: v for k, v in orig.items() if k != "abs_base"}}
            if orig is not req and "@" in orig["t"] + "".join(orig.get("hrefs", [])) and "@DATA@" not in orig["t"]:
                out["nontrivial"].add(f"{orig['m']} {orig['t']} {orig.get('hrefs', '')}")
            if req.get("uidv") and r.status in (200, 201, 204):
                out["nontrivial"].add(f"{req['m']} {tgt} uid={req['uidv']}")
            if escapes_root(tgt, prefix) or any(escapes_root(h, prefix) for h in req.get("hrefs", [])):
                out["nontrivial"].add(f"{req['m']} {tgt} {req.get('hrefs', '')}")
            bad = audit_violations(lines, server.scratch, allow_exact, ALLOW_PREFIX)
            if bad:
                ev, p, rp = bad[0]
                where = "sibling" if rp.startswith(top_of(server.scratch)) else "elsewhere"
                out["violations"].setdefault(f"{engine}:fs-access-outside-root:{req['m']}:{ev}:{where}", (f"{req['m']} {tgt!r} (prefix {prefix}) made the server {ev} {p!r} -> {rp} outside the data directory {server.data}; answer {r.status}", case))
            snap1 = snapshot_outside(server.scratch)
            if snap1 != snap0:
                changed = sorted(set(snap0.items()) ^ set(snap1.items()))[:4]
                out["violations"].setdefault(f"{engine}:outside-changed:{req['m']}", (f"{req['m']} {tgt!r} (prefix {prefix}) changed files outside the data directory: {changed}; answer {r.status}", case))
                snap0 = snap1
            tree1 = tree_names(server.data)
            delta = sorted(set(tree0) ^ set(tree1))[:6]
            if is_read:
                # a read cannot change the tree (checked below); its twin is the normalised request to the same server
                if tree1 != tree0:
                    out["violations"].setdefault(f"{engine}:read-changed-tree:{req['m']}", (f"{req['m']} {tgt!r} answered {r.status} and changed the data tree: {delta}", case))
                nm, nh, nb = build(dict(req, nhrefs=req.get("hrefs")), pre + ntgt)
                try:
                    tr = server.send(nm, pre + ntgt, nh, nb)
                    server.new_audit_lines()
                    tstatus, ttree = tr.status, tree1
                except Exception as e:
                    out["errors"].append(f"{engine}: normalised request {ntgt} failed in the harness: {e!r}")
                    continue
            if 400 <= r.status < 500 or r.status in (301, 302):
                if tree1 != tree0:
                    out["violations"].setdefault(f"{engine}:refused-but-changed:{req['m']}", (f"{req['m']} {tgt!r} answered {r.status} but changed the data tree: {delta}", case))
            elif r.status >= 500 or r.status == 0:
                out["stats"][f"{engine}:5xx"] += 1
                if tree1 != tree0:
                    out["violations"].setdefault(f"{engine}:5xx-changed-tree:{req['m']}", (f"{req['m']} {tgt!r} answered {r.status} and changed the data tree: {delta} (neither a refusal nor the effect of the normalised target {ntgt!r}, which answers {tstatus})", case))
            elif ".git" in urllib.parse.unquote(ntgt).split("/"):
                # '.git' is served by a git transport in the WSGI front end only; the two front ends
                # legitimately differ there and the boundary oracles (1) and (2) above still apply
                out["stats"][f"{engine}:twin-skipped-dotgit"] += 1
            else:
                out["stats"][f"{engine}:twin-compared"] += 1
                same_class = tstatus // 100 == r.status // 100
                if engine == "real":
                    same_class = same_class or tree1 == tree0  # front-end differences are tolerated for requests without effect
                if not same_class or ttree != tree1:
                    out["violations"].setdefault(f"{engine}:differs-from-normalised:{req['m']}", (f"{req['m']} {tgt!r} answered {r.status} with tree delta {delta}; the normalised target {ntgt!r} answers {tstatus} with tree delta {sorted(set(tree0) ^ set(ttree))[:6]}", case))
        return out
    finally:
        server.close()


def shard(shard, seed, examples, engines):
    from hypothesis import HealthCheck, Phase, given, settings
    from hypothesis import seed as hseed

    res = {"evaluations": 0, "nontrivial": set(), "violations": {}, "stats": collections.Counter(), "errors": [], "samples": []}
    prefixes = ["/", "/dav/", "/a/b/"]
    for ei, engine in enumerate(engines):
        prefix = prefixes[(shard + ei) % 3]
        collected = []

        @settings(max_examples=examples, database=None, deadline=None, phases=[Phase.generate], suppress_health_check=list(HealthCheck))
        @hseed(seed * 1000 + shard * 10 + ei)
        @given(request(prefix))
        def gen(r):
            collected.append(r)

        gen()
        try:
            out = run_session_with_twin(engine, prefix, collected)
        except Exception:
            import traceback

            res["errors"].append(traceback.format_exc())
            continue
        res["evaluations"] += out["evaluations"]
        res["nontrivial"] |= out["nontrivial"]
        res["stats"].update(out["stats"])
        res["errors"].extend(out["errors"])
        for k, v in out["violations"].items():
            res["violations"].setdefault(k, v)
        if collected and len(res["samples"]) < 2:
            res["samples"].append({"engine": engine, "prefix": prefix, "request": collected[0]})
    res["stats"] = dict(res["stats"])
    return res


def product_shard(shard, maxlen):
    """Exhaustive: all segment tuples up to maxlen for the collection-creating methods (thorough tier)."""
    res = {"evaluations": 0, "nontrivial": set(), "violations": {}, "stats": collections.Counter(), "errors": [], "samples": []}
    segs = ["..", ".", "", "%2e%2e", "..%2f", "%2f", "%5c..", "..;x", "esc", "victim", "calendars", "newcol"]
    reqs = []
    i = 0
    for n in range(1, maxlen + 1):
        for tup in itertools.product(segs, repeat=n):
            for m in ("MKCOL", "MKCALENDAR", "MKCOL-ext"):
                i += 1
                if i % runner.NSHARDS != shard:
                    continue
                reqs.append({"m": m, "t": "/user/calendars/" + "/".join(tup) + "/pwn", "uid": 0})
    try:
        out = run_session_with_twin("wsgi", "/", reqs)
    except Exception:
        import traceback

        res["errors"].append(traceback.format_exc())
        return res
    out["stats"] = dict(out["stats"])
    out["samples"] = reqs[:1]
    return out


def main(tier, seed):
    res = runner.CheckResult(ID, tier, seed)
    res.rule = RULE
    shards = runner.run_shards(shard, seed=seed, examples=150 if tier == "quick" else 800, engines=["real", "wsgi"])
    stats = collections.Counter()
    if tier == "thorough":
        shards += runner.run_shards(product_shard, maxlen=3)
    for sr in shards:
        if "error" in sr:
            res.errors.append(sr["error"])
            continue
        res.evaluations += sr["evaluations"]
        res.nontrivial |= sr["nontrivial"]
        res.errors.extend(sr["errors"])
        stats.update(sr["stats"])
        for s in sr.get("samples", []):
            if len(res.samples) < 3:
                res.samples.append(s)
        for sig, (detail, case) in sr["violations"].items():
            res.add_violation(sig, detail, case)
    res.extra["stats"] = dict(stats)
    if not any(k.startswith("real:") for k in stats) or not any(k.startswith("wsgi:") for k in stats):
        res.errors.append("vacuity guard: one of the two engines did not run")
    res.assumptions = [
        "the audit hook sees Python-level file-system calls only (no C extension on the request path opens files by itself)",
        "paths under the interpreter, the library directories and the xandikos source tree, and the exact files touched by a warm-up of benign requests (git configuration, mime.types, ...) are allowed",
        "the inside of .git control directories is not part of the compared data tree (it changes with every commit)",
        "a 5xx answer with an unchanged data tree is recorded, not a violation",
    ]
    return res


def replay(obj):
    out = run_session_with_twin(obj["engine"], obj["prefix"], [obj["request"]])
    bad = list(out["violations"].values())
    return (not bad), (bad[0][0] if bad else None)
