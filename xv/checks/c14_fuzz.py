"""C14 thorough tier: coverage-guided atheris campaign on ICalendarFile."""
import json
import os
import shutil
import subprocess
import sys
import tempfile

from .. import env
from ..machine import enc_body

SEEDS = [
    b"\x00" + b"BEGIN:VCALENDAR\r\nVERSION:2.0\r\nPRODID:-//x//EN\r\nBEGIN:VEVENT\r\nUID:u\r\nDTSTART:20200101T000000Z\r\nSUMMARY:hello\\, world\r\nEND:VEVENT\r\nEND:VCALENDAR\r\n",
    b"\x00" + b"BEGIN:VCALENDAR\nVERSION:2.0\nPRODID:x\nBEGIN:VTODO\nUID:t\nDUE;VALUE=DATE:20200101\nATTENDEE;CN=\"Doe, J\":mailto:j@example.com\nEND:VTODO\nEND:VCALENDAR\n",
]


def run(res, seed, shards=16, seconds=60):
    deps = os.path.join(env.VERIF, ".deps")
    try:
        subprocess.run([sys.executable, "-c", "import atheris"], env=dict(os.environ, PYTHONPATH=deps), check=True, stdout=subprocess.DEVNULL, stderr=subprocess.DEVNULL)
    except Exception:
        res.extra["fuzz"] = {"skipped": "atheris is not importable (setup.sh installs it into .deps from the offline wheelhouse)"}
        return
    root = tempfile.mkdtemp(prefix="xvfz-", dir=env.scratch_root())
    procs = []
    try:
        for i in range(shards):
            out = os.path.join(root, f"o{i}")
            corpus = os.path.join(root, f"c{i}")
            os.makedirs(corpus)
            if i % 2 == 1:  # odd shards start from a few valid objects, even shards from an empty corpus
                for j, sd in enumerate(SEEDS):
                    with open(os.path.join(corpus, f"seed{j}"), "wb") as f:
                        f.write(sd)
            cmd = [sys.executable, "-m", "xv.fuzz_ical", out, f"-max_total_time={seconds}", f"-seed={seed * 100 + i + 1}", "-max_len=2048", corpus]
            procs.append((i, out, subprocess.Popen(cmd, cwd=env.VERIF, env=dict(os.environ, PYTHONPATH=deps), stdout=subprocess.DEVNULL, stderr=subprocess.DEVNULL)))
        total = {"execs": 0, "invalid": 0, "accepted": 0, "fixed": 0, "crash_in_validate": 0, "independent_parser_rejects": 0}
        buckets = {}
        for i, out, p in procs:
            try:
                p.wait(timeout=seconds + 120)
            except subprocess.TimeoutExpired:
                p.kill()
            try:
                with open(os.path.join(out, "summary.json")) as f:
                    sm = json.load(f)
            except Exception:
                res.errors.append(f"fuzz shard {i}: no summary")
                continue
            for k, v in sm["stats"].items():
                total[k] = total.get(k, 0) + v
            for b, n in sm["buckets"].items():
                buckets[b] = buckets.get(b, 0) + n
                if b.startswith("VIOLATION"):
                    import hashlib

                    fn = os.path.join(out, "findings", hashlib.sha1(b.encode()).hexdigest()[:12] + ".bin")
                    data = open(fn, "rb").read() if os.path.exists(fn) else b""
                    res.add_violation("fuzz/" + b, f"atheris input (decoded by xv.fuzz_ical.TestOneInput): {data[:300]!r}", {"engine": "fuzz", "bucket": b, "input": enc_body(data)})
        res.evaluations += total["execs"]
        res.extra["fuzz"] = {"engine": "atheris/libFuzzer", "shards": shards, "seconds_per_shard": seconds, "stats": total, "buckets": buckets, "note": "accepted inputs must re-validate and be a fixed point of normalisation; crashes inside validate() are refusals (recorded, not violations)"}
    finally:
        shutil.rmtree(root, ignore_errors=True)
