"""C01, store-API engine: the same histories on the four back ends in lock-step."""
import hashlib
import json

from .. import runner
from ..storemachine import run_store_program, store_program


def run_one(program):
    r = run_store_program(program)
    st = r["stats"]
    nt = st.get("ok:put", 0) >= 2 and st.get("ok:delete", 0) >= 1 and st.get("reopen", 0) >= 1 and any(k.startswith("refused:") for k in st)
    return {
        "ok": r["ok"],
        "violation": r["violation"],
        "stats": {"store:" + k: v for k, v in st.items()},
        "nontrivial": nt,
        "key": "store:" + hashlib.sha1(json.dumps(program, sort_keys=True).encode()).hexdigest(),
        "size": len(program["steps"]),
        "labels": ["engine:store"],
        "sample": {"engine": "store", **program},
    }


def still_fails(sig):
    def f(program):
        r = run_store_program({"steps": program["steps"]})
        return (not r["ok"]) and r["violation"]["sig"] == sig

    return f


def default_strategy():
    return store_program(two_handles=True)


def run(res, tier, seed, examples=None, strategy=default_strategy, prefix="store"):
    examples = examples or (25 if tier == "quick" else 400)
    shards = runner.run_shards(runner.machine_shard, seed=seed + 7919, examples=examples, strategy_factory=strategy, run_one=run_one)
    sub = runner.CheckResult(res.prop, tier, seed)
    viols = runner.merge_machine(sub, shards)
    res.evaluations += sub.evaluations
    res.nontrivial |= sub.nontrivial
    res.errors.extend(sub.errors)
    res.samples.extend(sub.samples[:1])
    res.extra["store_engine"] = {"programs": sub.evaluations, "nontrivial": len(sub.nontrivial), "stats": sub.extra.get("stats", {})}
    for sig, v in viols.items():
        prog = runner.ddmin_steps({"config": {}, "steps": v["case"]["steps"]}, still_fails(sig), budget=150)
        rr = run_store_program({"steps": prog["steps"]})
        detail = rr["violation"]["detail"] if not rr["ok"] else v["violation"]["detail"]
        res.add_violation(f"store/{sig}", detail, {"engine": "store", "program": {"steps": prog["steps"]}})
    return sub
