"""C09 — the git repository is a faithful, append-only history that git tools can use."""
from .. import gen_prog
from ._machine import MachineCheck

ID = "C09"
RULE = (
    "C01-style generated histories on tree-git and bare-git collections (both metadata kinds) incl. PROPPATCH, no-op rewrites and refused requests. After every step the real git CLI "
    "(rev-list --parents, ls-tree -r, cat-file --batch, status --porcelain, fsck --strict) audits every collection: the previous commit chain is a suffix of the new one and history is linear; "
    "a step that is not an acknowledged change of the collection adds no commit and leaves the tree alone; an acknowledged change that alters the tree adds exactly one commit (PROPPATCH: at most one per "
    "acknowledged property) and one that does not alter it adds none; the HEAD tree lists exactly the model's members (+ .xandikos) with the served bytes; non-bare: status is clean except nested "
    "collections, fsck reports nothing but dangling objects. Non-trivial program: has a no-op rewrite, a refused write and a property change between two content changes; distinct by program hash."
)


def strategy():
    return gen_prog.program(
        weights={"PUT": 12, "PUT-invalid": 3, "POST": 1, "DELETE": 4, "DELETE-coll": 1, "MKCOL": 2, "PROPPATCH": 5, "GET": 1, "PROPFIND": 1, "REPORT": 2, "RECREATE": 1, "RESTART": 1, "READ": 4},
        min_steps=12,
        max_steps=26,
        cond_rate=5,
        focus=True,
        locked_rate=6,
        bulk_plain=True,
    )


def nontrivial(program, st, r):
    return st.get("git:noop-checked", 0) >= 1 and st.get("noack:write", 0) >= 1 and st.get("ack:propset", 0) >= 1 and st.get("git:commit-checked", 0) >= 2


CHECK = MachineCheck(ID, RULE, ("content", "git"), strategy, nontrivial, quick=18, thorough=200, assumptions=["git 2.39 CLI is the reference reader", "dangling objects reported by fsck are not errors", "GIT_OPTIONAL_LOCKS=0 so that the audit never rewrites the index"])
main = CHECK.main
replay = CHECK.replay
