"""C09 — the git repository is a faithful, append-only history that git tools can use."""
from hypothesis import strategies as st

from .. import gen, gen_prog
from ..machine import enc_body
from ._machine import MachineCheck

ID = "C09"
RULE = (
    "C01-style generated histories on tree-git and bare-git collections (both metadata kinds) incl. PROPPATCH, no-op rewrites and refused requests; a quarter of the programs fill a collection, delete every member (empty tree) and write again. After every step the real git CLI "
    "(rev-list --parents, ls-tree -r, cat-file --batch, status --porcelain, fsck --strict) audits every collection: the previous commit chain is a suffix of the new one and history is linear; "
    "a step that is not an acknowledged change of the collection adds no commit and leaves the tree alone; an acknowledged change that alters the tree adds exactly one commit (PROPPATCH: at most one per "
    "acknowledged property) and one that does not alter it adds none; the HEAD tree lists exactly the model's members (+ .xandikos) with the served bytes; non-bare: status is clean except nested "
    "collections, fsck reports nothing but dangling objects. Non-trivial program: has a no-op rewrite, a refused write and a property change between two content changes; distinct by program hash."
)


@st.composite
def drain_program(draw):
    """A collection is filled, emptied completely (its tree becomes the empty tree unless it holds .xandikos),
    and written again - with reads in between that do not go through sync-collection."""
    cfg = {"prefix": draw(st.sampled_from(gen_prog.PREFIXES)), "seed": [{"slot": "b1", "bare": True, "meta": draw(st.sampled_from(["config", "config", "file"])), "kind": "calendar"}]}
    coll = draw(st.sampled_from(["b1", "b1", "c1"]))
    steps = [{"op": "MKCOL", "fe": draw(gen_prog.FE), "coll": "c1", "kind": "mkcalendar"}]
    names = [f"d{i}.ics" for i in range(draw(st.integers(1, 3)))]
    for i, n in enumerate(names):
        steps.append({"op": "PUT", "fe": draw(gen_prog.FE), "coll": coll, "name": n, "ctype": "text/calendar", "body": enc_body(draw(gen.calendar_object(uid=f"drain-{i}"))["raw"]), "cond": []})
    for n in draw(st.permutations(names)):
        steps.append({"op": "DELETE", "fe": draw(gen_prog.FE), "coll": coll, "name": n, "cond": []})
        if draw(st.booleans()):
            steps.append({"op": "GET", "fe": draw(gen_prog.FE), "coll": coll, "name": n, "cond": []})
    for i in range(draw(st.integers(1, 2))):
        steps.append({"op": "PUT", "fe": draw(gen_prog.FE), "coll": coll, "name": f"e{i}.ics", "ctype": "text/calendar", "body": enc_body(draw(gen.calendar_object(uid=f"again-{i}"))["raw"]), "cond": []})
    if draw(st.booleans()):
        steps.append({"op": "RESTART"})
    return {"config": cfg, "steps": steps}


def strategy():
    return st.one_of(random_program(), random_program(), random_program(), drain_program())


def random_program():
    return gen_prog.program(
        weights={"PUT": 12, "PUT-invalid": 3, "POST": 1, "DELETE": 4, "DELETE-coll": 1, "MKCOL": 2, "PROPPATCH": 5, "GET": 1, "PROPFIND": 1, "REPORT": 2, "RECREATE": 1, "RESTART": 1, "READ": 4},
        min_steps=12,
        max_steps=26,
        cond_rate=5,
        focus=True,
        locked_rate=6,
        bulk_plain=True,
    )


def nontrivial(program, stt, r):
    return stt.get("git:noop-checked", 0) >= 1 and stt.get("noack:write", 0) >= 1 and stt.get("ack:propset", 0) >= 1 and stt.get("git:commit-checked", 0) >= 2


CHECK = MachineCheck(ID, RULE, ("content", "git"), strategy, nontrivial, quick=18, thorough=200, assumptions=["git 2.39 CLI is the reference reader", "dangling objects reported by fsck are not errors", "GIT_OPTIONAL_LOCKS=0 so that the audit never rewrites the index"])
main = CHECK.main
replay = CHECK.replay
