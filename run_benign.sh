#!/bin/sh
# ./run_benign.sh [tier] - control group: every check against behaviour-preserving changes of /repo
# (benign/<id>/patch.diff applied to scratch worktrees of /repo).  Every check must exit 0.
cd "$(dirname "$0")" || exit 2
tier=${1:-quick}
rc=0
for d in benign/*/; do
  b=$(basename "$d")
  wt=$(mktemp -d /tmp/xv-benign-XXXXXX)
  rmdir "$wt"
  git -C "${XV_REPO:-/repo}" worktree add --detach "$wt" HEAD -q || { echo "benign $b: cannot create worktree"; rc=2; continue; }
  if git -C "$wt" apply "$PWD/$d/patch.diff"; then
    echo "== benign $b"
    XV_REPO="$wt" ./run_all.sh "$tier" 1 | sed "s/^/$b /"
    [ $? -eq 0 ] || rc=1
  else
    echo "benign $b: patch does not apply to the current tree (skipped)"
  fi
  git -C "${XV_REPO:-/repo}" worktree remove --force "$wt"
done
exit $rc
