# Table of registered checks (read by tools_manifest.py).
NOT_YET = {}

check(
    "C01",
    "exploration",
    "Generated request histories (Hypothesis, 16 shards) through both HTTP front ends and generated store-API histories on all four back ends, each compared step by step with a reference model of the acknowledged writes; exploration, not proof: the guarantee is over unbounded histories and the check samples them with collision-heavy generators.",
    "Trusted: the reference model (xv/machine.py), the independent content-line parser (xv/icalref.py), in-process restart = cache_clear + new backend/app objects.",
    "model-based stateful property testing (generated request histories vs reference model, collect-then-ddmin shrinking)",
    "DESIGN.md section 3 C01",
)
