# Table of registered checks (read by tools_manifest.py).
NOT_YET = {}

check(
    "C01",
    "exploration",
    "Generated request histories (Hypothesis, 16 shards) through both HTTP front ends and generated store-API histories on all four back ends, each compared step by step with a reference model of the acknowledged writes; exploration, not proof: the guarantee is over unbounded histories and the check samples them with collision-heavy generators.",
    "Trusted: the reference model (xv/machine.py), the independent content-line parser (xv/icalref.py), in-process restart = cache_clear + new backend/app objects.",
    "model-based stateful property testing (generated request histories vs reference model, collect-then-ddmin shrinking)",
    "DESIGN.md section 3 C01",
)

check(
    "C02",
    "exploration",
    "Generated histories; after every step the ETag of each member of the touched collections is read through all seven views (PUT answer, GET, HEAD, PROPFIND, multiget, query, sync) and must be one value, and ETag<->bytes must be a bijection per path over the whole history (both directions asserted).",
    "Trusted: harness HTTP client and multistatus parser; ETag construction is not assumed. Hash collisions are unreachable by generation.",
    "stateful property testing with a cross-view differential oracle and a history invariant (ETag<->bytes bijection)",
    "DESIGN.md section 3 C02",
)

check(
    "C03",
    "exploration",
    "Three engines: generated conditional histories against an RFC 7232 strong-comparison model, an enumerated grid (resource state x 49 header forms x method x front end x back end; sampled in quick, exhaustive in thorough) and store-API histories with etag arguments on four back ends. A failed precondition must be 412/304 and change nothing (C01 audit after every step).",
    "Trusted: the precondition evaluator in xv/machine.py (cond_truth). Malformed/weak header values accept either 'not matching' or 400.",
    "model-based property testing + exhaustive finite grid (differential against an RFC 7232 reference evaluator)",
    "DESIGN.md section 3 C03",
)

check(
    "C06",
    "exploration",
    "Generated create/overwrite/delete/restart histories over small name and UID pools (case variants, spaces, escapes, non-ASCII, missing UID) over HTTP (PUT, POST; tree and bare git) and the store API (tree, bare, memory, vdir): a write is refused for a UID conflict iff another live member holds the UID (both directions), and live UIDs stay pairwise distinct after every step.",
    "Trusted: the independent UID extractor (first component carrying UID, TEXT-unescaped, exact comparison).",
    "model-based stateful property testing (two-sided refusal oracle + uniqueness invariant)",
    "DESIGN.md section 3 C06",
)

check(
    "C08",
    "exploration",
    "Generated histories over several collections; the four tag views are read after every step and compared all-pairs per collection incarnation against the model's member map, write counter and metadata epoch (different content => different tag; no acknowledged write => same tag; git: same content and epoch => same tag).",
    "Trusted: the model's notion of 'acknowledged write to this collection'. Sub-collections are not members for the purpose of the tag.",
    "stateful property testing with an all-pairs history invariant",
    "DESIGN.md section 3 C08",
)

check(
    "C09",
    "exploration",
    "Generated histories on tree-git and bare-git collections; after every step the real git CLI audits every collection repository (commit chain append-only and linear, commit count per acknowledged change, HEAD tree = model members with the served bytes, clean status for non-bare, fsck --strict).",
    "Trusted: git 2.39 as the reference reader of the repository; the model's acknowledged-change classification.",
    "stateful property testing with an external-tool (git CLI) differential audit after every step",
    "DESIGN.md section 3 C09",
)

check(
    "C07",
    "exploration",
    "Generated write/delete histories (calendars and address books, tree and bare git, shared bodies across names, delete-recreate, reverts, PROPPATCH, restarts, collection re-creation) with the sync-token and member->ETag snapshot recorded after every step; sync-collection reports for earlier/current/empty/foreign tokens are compared with the exact set difference between the two snapshots, the returned token with the live property, and a replica is replayed.",
    "Trusted: ETag identity as change detector (C02 checks it separately); snapshots taken by the harness through PROPFIND. The empty-tree id is treated as denoting the empty state rather than as foreign.",
    "model-based stateful property testing (snapshot-difference oracle + replica replay)",
    "DESIGN.md section 3 C07",
)

check(
    "C15",
    "exploration",
    "Generated PROPPATCH set/remove, extended MKCOL/MKCALENDAR, member-write and restart histories over four collections and both metadata back ends, with values from a configuration-metacharacter grammar; after every step every settable property of every collection is read back with PROPFIND and compared with the model of acknowledged sets/removes.",
    "Trusted: PROPFIND as the reader. Known finding K7 (multi-line values in the configparser-based .xandikos file) is recognised by an exact signature (configparser round-trip of the value) and counted.",
    "model-based stateful property testing (read-back oracle over a metacharacter grammar)",
    "DESIGN.md section 3 C15",
)

check(
    "C16",
    "exploration",
    "Generated collection layouts and member names over the URL-significant/non-ASCII grammar under three route prefixes and both front ends; PROPFIND Depth 0/1 response sets are compared with the model and every href emitted by PROPFIND, PROPPATCH, multiget, query, sync, POST Location and href-valued properties is resolved as a client would and dereferenced as sent.",
    "Trusted: urllib's RFC 3986 reference resolution; identification of a dereferenced resource by ETag/bytes (members) or displayname/resourcetype (collections).",
    "property-based testing with a dereference round-trip oracle (emitted href -> GET/PROPFIND -> same resource)",
    "DESIGN.md section 3 C16",
)

check(
    "C17",
    "exploration",
    "Generated write histories with multiget requests whose href lists mix live, deleted, never-existing, over-encoded, absolute, collection, other-collection, wrong-kind, out-of-namespace (incl. prefix look-alikes), empty and malformed hrefs; per-path answers are compared with GET and re-checked with the list reversed and with each href alone.",
    "Trusted: GET as the reference for ETag and body; href classification by decoded, normalised path against the model.",
    "property-based testing: differential against GET + metamorphic relation (order / subset independence)",
    "DESIGN.md section 3 C17",
)

check(
    "C14",
    "exploration",
    "Generated valid and invalid iCalendar/vCard bodies are PUT over HTTP (tree and bare git, both front ends) and imported into memory and vdir stores: valid bodies must be served property-for-property equal (independent parser) and be a fixed point of re-upload (ETag, bytes, collection tag, commit count); invalid bodies must be refused without any trace. Thorough tier adds a coverage-guided atheris campaign (16 x 60 s) on ICalendarFile with the fixed-point oracle inside the target.",
    "Trusted: xv/icalref.py as independent content-line parser; git rev-list for the commit count.",
    "property-based testing (round-trip + idempotence oracle) and coverage-guided fuzzing with an in-target oracle",
    "DESIGN.md section 3 C14",
)

check(
    "C11",
    "exploration",
    "A boundary-covering grid over the RFC 4791 9.9 tables (4 value types x 4 request time zones x one object per table row x every ordering of range bounds relative to the object's instants; sampled in quick, complete in thorough) plus Hypothesis-generated collections and 9.7-grammar filters, each compared with an independent reference evaluator; calendar-data compared with GET.",
    "Trusted: the 9.9 tables and 9.7 semantics as written into xv/filterref.py from the RFC; zoneinfo/tzdata. Recurrence expansion, VALARM time-ranges and the open boundary of property time-ranges are not asserted. Known finding K1 recognised by re-evaluating the reference with the substituted semantics.",
    "differential testing against a reference evaluator: exhaustive boundary grid + grammar-based property testing",
    "DESIGN.md section 3 C11 and Appendix A",
)

check(
    "C12",
    "exploration",
    "An exhaustive grid (5 match-types x 4 collations x negate x 14 needles against 7 cards = 560 queries, every triple hit) plus Hypothesis-generated address books and RFC 6352 10.5 filters (anyof/allof, presence, is-not-defined, several text-matches, param-filters, nresults limits), compared with a reference evaluator over independently parsed cards; address-data compared with GET.",
    "Trusted: xv/filterref.py card evaluator (a prop-filter matches if some instance satisfies all its children); i;unicode-casemap verdicts that depend on non-ASCII case are unasserted and counted.",
    "differential testing against a reference evaluator: exhaustive finite grid + grammar-based property testing",
    "DESIGN.md section 3 C12",
)

check(
    "C10",
    "exploration",
    "Generated programs of repeated/interleaved calendar-queries, writes, deletes and restarts on calendars that include multi-component resources and unparseable stored files, executed against four servers that differ only in index_threshold (0, 1, default, never) and, at the store level, on tree-git, bare-git and vdir stores; all configurations must return identical name sets and serve identical data for each name at every query (differential + metamorphic, independent of RFC correctness).",
    "Trusted: the never-indexing configuration as 'fresh store' reference. Known finding K5 (per-file index mixes the values of several components of one type) is recognised by an exact structural signature and counted.",
    "differential/metamorphic stateful property testing across index-threshold configurations",
    "DESIGN.md section 3 C10",
)

check(
    "C13",
    "exploration",
    "Hypothesis-generated requests over an adversarial path grammar x 15 methods, sent as raw bytes to a real audited server process and to the WSGI callable; after every request: snapshot of everything around the data directory, audit-event paths of the request's lifetime, and 'refused or as the normalised target' against a twin on a copy of the data directory. Thorough adds the exhaustive product of 12 segment kinds up to length 3 for the collection-creating methods.",
    "Trusted: Python audit events as the observer of file-system access; allow-list = interpreter/library/source trees plus exact files touched by a benign warm-up and the server's $HOME. The harness nests its scratch directory 14 levels deep so that an escape stays contained.",
    "fuzzing over a path grammar with an audit-hook oracle, a before/after snapshot oracle and a differential (normalised twin) oracle",
    "DESIGN.md section 3 C13",
)

check(
    "C18",
    "exploration",
    "The full deployment matrix (4 route prefixes x 4 principal paths x 3 creation modes x 2 front ends x 3 restart counts = 288 configurations; 576 in thorough) is run with real server processes (python -m xandikos serve; xandikos.wsgi behind WellknownRedirector in a fresh process) and a discovery client that only follows hrefs the server returned; stored data and the set of collections must survive every real process restart.",
    "Trusted: the harness's discovery client (RFC 6764 / 5397 / 4791 / 6352 chain) and its wsgiref-based model of a WSGI deployment (SCRIPT_NAME mount, Content-Length-limited input).",
    "exhaustive configuration enumeration with a client-side reachability oracle",
    "DESIGN.md section 3 C18",
)

check(
    "C04",
    "fault_enumeration",
    "For Hypothesis-generated (back end, metadata kind, prior history, operation) cases the operation's file-system mutations are numbered in a counting run and the process is then killed (os._exit in a forked child) at EVERY mutation, plus after truncation and after half of the bytes of every direct file write, plus after completion; each resulting directory is re-opened and must read as the old or the new state with an intact object graph. Exhaustive over crash points per generated operation; the operations themselves are sampled.",
    "Trusted: Python audit events enumerate the mutations (an unknown mutating event kind would be missed); process death, not power loss. git fsck --connectivity-only and a dulwich walk check reachability.",
    "fault injection: exhaustive crash-point enumeration per generated operation (audit-hook kill switch), old-or-new oracle",
    "DESIGN.md section 3 C04",
)

check(
    "C05",
    "exploration",
    "Operation pairs/triples from 14 templates on tree-git and bare-git stores in two sharing modes run under a cooperative scheduler owned by the harness (schedule points: every source line of xandikos/store and every audited file-system call inside the store, i.e. also inside dulwich). All one-pre-emption schedules are enumerated (every third point in quick; every point, plus two pre-emptions over file-system points and three-operation templates in thorough) and Hypothesis draws random schedules with unbounded pre-emptions; outcomes and final contents must equal some sequential execution.",
    "Trusted: the sequential reference model in xv/checks/c05.py. Pre-emption granularity is source line / file-system call, not bytecode; real multi-core timing is replaced by a sequentialised schedule. Known finding K6 (checks taken from a snapshot outside the critical section) is recognised by re-running the reference with exactly that relaxation, separately per back end.",
    "systematic schedule exploration (bounded pre-emption enumeration + random schedules) with a serialisability oracle",
    "DESIGN.md section 3 C05",
)
