#!/bin/sh
# ./run_all.sh [tier] [seed...]  — run every registered check; outputs go to a scratch XV_OUT unless XV_KEEP=1
cd "$(dirname "$0")" || exit 2
tier=${1:-quick}; shift
seeds=${*:-1}
rc=0
for s in $seeds; do
  for c in C01 C02 C03 C04 C05 C06 C07 C08 C09 C10 C11 C12 C13 C14 C15 C16 C17 C18; do
    if [ -z "$XV_KEEP" ]; then out=$(mktemp -d); export XV_OUT=$out; fi
    line=$(VERIF_SEED=$s ./check $c --tier $tier 2>&1 | grep -E "^(C[0-9]+ tier|VIOLATION|HARNESS|INCONCLUSIVE|  \[)" | cut -c1-400)
    echo "seed=$s $line"
    echo "$line" | grep -q "exit=0" || rc=1
    [ -z "$XV_KEEP" ] && rm -rf "$out"
  done
done
exit $rc
