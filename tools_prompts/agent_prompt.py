import json,sys
pid=sys.argv[1]
props={json.loads(l)['id']:json.loads(l) for l in open('/verif/properties.jsonl')}
p=props[pid]
print(f"""You are helping evaluate a test suite by producing a *seeded defect* (a mutant) for the open-source project xandikos (a Python CalDAV/CardDAV/WebDAV server storing data in git repositories via dulwich, or vdir directories).

You have your own scratch git worktree of the project at /tmp/wt-{pid} (work ONLY inside that directory; never touch /repo or /verif; do not read anything under /verif). Python is /venv/bin/python (xandikos' dependencies are installed there; there is no network). To import the worktree's code use PYTHONPATH=/tmp/wt-{pid} (the package is the directory /tmp/wt-{pid}/xandikos). The existing test-suite is run with:
  cd /tmp/wt-{pid} && /venv/bin/python -m pytest -q -p no:cacheprovider xandikos
On the unmodified worktree exactly 2 tests fail (TreeGitStoreTest::test_iter_with_etag and ::test_iter_with_etag_missing_uid, because the *test code* uses a removed dulwich API) and 144 pass. That is the baseline.

THE PROPERTY that your change must break:

  Title: {p['title']}
  Statement: {p['statement']}
  Quantified over: {p['quantifier']['text']}

YOUR TASK: make a small, realistic change to the xandikos source code in /tmp/wt-{pid}/xandikos (NOT to the tests) such that
  1. the code still imports/compiles and the existing test-suite result is unchanged (the same 144 tests pass, same 2 fail);
  2. the property above is violated by the changed code, but only under *specific* circumstances - e.g. a particular multi-step sequence of operations, an unusual input, a particular interleaving, a restart at a particular point, or two cooperating code sites that each look fine alone. It must NOT be something that ordinary simple use (one PUT then one GET, say) would expose at once. Think of the kind of plausible bug a developer could introduce in a refactoring or an 'optimisation' (a cache that is not invalidated in one case, an off-by-one in a boundary, a comparison that is slightly wrong, a condition that skips a step for some inputs).
  3. you write a demonstration /tmp/wt-{pid}/demo.py: a standalone script (no pytest needed) that exercises the code (through the store API in xandikos/store, or through the WSGI app `XandikosApp(...).handle_wsgi_request(environ, start_response)` / the aiohttp handler, whatever is appropriate), exits 0 when the property holds and exits 1 (printing what went wrong) when it is violated. It must exit 1 with your change applied and exit 0 on the unmodified code (verify both, e.g. with `git stash` / `git stash pop`). Run it as: cd /tmp/wt-{pid} && PYTHONPATH=/tmp/wt-{pid} /venv/bin/python demo.py
  4. you leave your change UNCOMMITTED in the worktree and also save it as /tmp/wt-{pid}/patch.diff (output of `git diff -- xandikos`, not including demo.py).

Useful facts: create a git-backed store with `from xandikos.store.git import TreeGitStore, BareGitStore; s = TreeGitStore.create(path)`; register file types with `s.load_extra_file_handler(ICalendarFile)` (from xandikos.icalendar) and `VCardFile` (from xandikos.vcard); `s.import_one(name, content_type, [bytes], replace_etag=...)` returns (name, etag); `s.delete_one(name, etag=...)`; `s.iter_with_etag()`; `s.get_file(name).content`. For HTTP-level work: `from xandikos.web import XandikosBackend, XandikosApp; backend = XandikosBackend(datadir); backend._mark_as_principal('/user/'); backend.create_principal('/user/', create_defaults=True); app = XandikosApp(backend, current_user_principal='/user/')` and call `app.handle_wsgi_request(environ, start_response)` with a WSGI environ (REQUEST_METHOD, SCRIPT_NAME, PATH_INFO, CONTENT_TYPE, CONTENT_LENGTH, wsgi.input=io.BytesIO(body), HTTP_* headers such as HTTP_DEPTH / HTTP_IF_MATCH, wsgi.url_scheme, SERVER_NAME, SERVER_PORT). `xandikos.web.open_store_from_path` is an lru_cache of opened stores (call `.cache_clear()` to simulate a restart).

When done, reply with: (a) a one-paragraph description of the change and why it breaks the property, (b) exactly what is needed for it to manifest, (c) confirmation of the three runs you did (test-suite with change; demo with change -> exit 1; demo without change -> exit 0). Keep the patch small (a few lines). Do not spend effort on anything else.""")
