import json,sys,subprocess
pid=sys.argv[1]
AVOID={
"C01":"a bare-git store that skips the commit when the blob already exists in the object store",
"C02":"a tree-git store that skips the index update/commit when the blob already exists in the object store",
"C03":"changing how etag_matches() splits the list of entity tags",
"C04":"making the tree store read the working-tree file instead of the git object",
"C05":"reading the git index before taking index.lock in locked_index",
"C06":"eagerly updating the uid index after a write so that a stale uid entry survives",
"C07":"leaking old_etag between loop iterations in GitStore.iter_changes",
"C08":"a per-store-object ctag cache that survives delete + re-create of a collection",
"C09":"skipping the commit when the blob already exists in the object store",
"C10":"making MemoryIndex.reset() keep the 'already indexed' marks",
"C11":"simplifying the VTODO COMPLETED+CREATED time-range row",
"C12":"letting the conditions of one prop-filter be satisfied by different instances of a repeated property",
"C13":"a startswith(root) prefix check in _map_to_file_path that accepts sibling directories",
"C14":"stopping the control-character validation from recursing into nested components",
"C15":"a parse cache for the .xandikos file keyed by file contents that returns a mutated parser",
"C16":"leaving '%XX' sequences in member names un-escaped in create_href",
"C17":"remembering the parent collection across hrefs in a get_resources() override",
"C18":"removing the _mark_as_principal() calls",
}
base=subprocess.run(['python3','/tmp/agent_prompt.py',pid],capture_output=True,text=True).stdout
base=base.replace(f"/tmp/wt-{pid}", f"/tmp/wt2-{pid}")
extra=f"\n\nIMPORTANT: another engineer has already used the following idea for this property, so you must come up with a DIFFERENT defect (different code site and different triggering circumstances): {AVOID[pid]}. Prefer a defect in a different module or layer than that one (e.g. the HTTP layer in webdav.py/web.py/caldav.py/carddav.py/sync.py instead of the store, or vice versa, or the vdir store, or the aiohttp vs WSGI front-end difference, or restart/caching behaviour)."
if pid=="C13":
    extra+=" SAFETY for this property: your demo must use a data directory nested at least 12 levels deep inside a fresh tempfile.mkdtemp() directory, must never create or delete anything outside that temporary directory, and must remove it at the end."
if pid=="C04":
    extra+=" Hint: a crash at a chosen point can be simulated by running the store operation in a forked child in which a sys.addaudithook callback (or a monkey-patched function) calls os._exit(1) at the N-th file-system mutation, then re-opening the store in the parent."
if pid=="C05":
    extra+=" Hint: force the interleaving deterministically with threading.Event objects placed via monkey-patching."
if pid=="C18":
    extra+=" Facts: real server: `python -m xandikos serve -d DIR --defaults -l 127.0.0.1 -p PORT --route-prefix /dav --current-user-principal /user/ --no-detect-systemd`; WSGI module xandikos/wsgi.py is configured by XANDIKOSPATH, CURRENT_USER_PRINCIPAL, AUTOCREATE=defaults|empty|yes|no."
print(base+extra)
