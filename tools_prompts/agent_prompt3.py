import json,sys,subprocess
pid=sys.argv[1]
AVOID={
"C01":["a bare-git store that skips the commit when the blob already exists in the object store","decoding PATH_INFO a second time in the WSGI front end"],
"C02":["a tree-git store that skips the index update/commit when the blob already exists","ObjectResource.get_file() no longer passing the etag (GET racing with a PUT)"],
"C03":["changing how etag_matches() splits the list","taking the current etag for the replace_etag check from the uid-scan cache"],
"C04":["tree store reading the working-tree file instead of the git object","vdir store writing new items in place without a temporary file"],
"C05":["reading the git index before taking index.lock","skipping _scan_uids() while HEAD is unchanged"],
"C06":["eagerly updating the uid index after a write","making the uid maps class-level (shared between stores)"],
"C07":["leaking old_etag between loop iterations in iter_changes","an lru_cache around the generator returned by iter_changes"],
"C08":["a per-store ctag cache surviving delete+re-create","computing the collection ETag from member etags without names"],
"C09":["skipping the commit when the blob already exists","leaving a stray .tmp file in the work tree after a no-op rewrite"],
"C10":["MemoryIndex.reset() keeping 'already indexed' marks","remembering names of unparseable files"],
"C11":["simplifying the VTODO COMPLETED+CREATED row","MemoryIndex.reset() keeping values"],
"C12":["conditions of one prop-filter satisfied by different instances","off-by-one in the ascii case-fold table"],
"C13":["a startswith(root) prefix check accepting sibling directories","decoding the member name a second time in PutMethod"],
"C14":["control-character validation not recursing into nested components","skipping validate() when the blob already exists in the object store"],
"C15":["a parse cache for .xandikos keyed by file contents","applying all DAV:set before all DAV:remove in PROPPATCH"],
"C16":["leaving '%XX' in member names un-escaped in create_href","caching TreeGitStore.subdirectories() by entry count"],
"C17":["remembering the parent collection across hrefs in get_resources()","using urlparse (params) instead of urlsplit in read_href_element"],
"C18":["removing the _mark_as_principal() calls","joining the principal href onto a slash-less SCRIPT_NAME with urljoin"],
}
base=subprocess.run(['python3','/tmp/agent_prompt.py',pid],capture_output=True,text=True).stdout
base=base.replace(f"/tmp/wt-{pid}", f"/tmp/wt3-{pid}")
extra="\n\nIMPORTANT: other engineers have already used the following ideas for this property, so you must come up with a DIFFERENT defect (different code site AND different triggering circumstances): (1) "+AVOID[pid][0]+"; (2) "+AVOID[pid][1]+". Look for something subtle in a part of the code those do not touch: e.g. interactions between two requests of different kinds, state that survives in a long-lived server process (the lru_cache of opened stores, the uid maps, the query index), behaviour after a collection is deleted and re-created, the difference between the aiohttp and the WSGI front end, the git-config metadata back end versus the .xandikos file, nested collections, POST (add-member), extended MKCOL, or error paths that leave partial effects."
if pid=="C13":
    extra+=" SAFETY: your demo must use a data directory nested at least 12 levels deep inside a fresh tempfile.mkdtemp() directory, must never create or delete anything outside that temporary directory, and must remove it at the end."
if pid=="C04":
    extra+=" Hint: simulate a crash by running the store operation in a forked child in which a sys.addaudithook callback (or a monkey-patched function) calls os._exit(1) at the N-th file-system mutation, then re-open the store in the parent."
if pid=="C05":
    extra+=" Hint: force the interleaving deterministically with threading.Event objects placed via monkey-patching."
if pid=="C18":
    extra+=" Facts: real server: `python -m xandikos serve -d DIR --defaults -l 127.0.0.1 -p PORT --route-prefix /dav --current-user-principal /user/ --no-detect-systemd`; WSGI module xandikos/wsgi.py is configured by XANDIKOSPATH, CURRENT_USER_PRINCIPAL, AUTOCREATE=defaults|empty|yes|no."
print(base+extra)
